(* EnginePhys.v — under standard I/O the physical size of every data file is its logical size, in
   every reachable state (memory-mapped files are extended in 512 MiB steps and cut back by Close and
   Backup).  Used by C20: a copy of the directory taken by Backup opens like a closed directory. *)
From Coq Require Import ZArith Lia ZifyN ZifyNat ZifyBool Sorting.Sorted.
From KV Require Import Bytes GenConsts Chunk Record Engine Script BytesLemmas AMapLemmas
  EngineFiles EngineInv EngineBatch EngineRefine EngineLog EngineRecover EngineSync EngineOpen EngineAdopt EngineMerge.
Open Scope N_scope.

Definition PF (io : N) (f : lfile) : Prop := (io =? io_MMap) = true \/ lf_phys f = lf_size f.
Definition PhysInv (d : db) : Prop := PF (io_of d) (d_active d) /\ Forall (fun x => PF (io_of d) (snd x)) (d_older d).

Lemma h_write_PF io nm f rs n : PF io f -> PF io (fst (h_write io nm f rs n)).
Proof.
  unfold PF, h_write. destruct (io =? io_MMap) eqn:E; [intros _; left; reflexivity|].
  intros [H|H]; [discriminate|]. right. cbn. lia.
Qed.
Lemma h_sync_PF io nm f : PF io f -> PF io (fst (h_sync nm f)).
Proof. unfold PF, h_sync. cbn. auto. Qed.
Lemma h_read_PF io nm f off n : PF io f -> PF io (fst (h_read io nm f off n)).
Proof. unfold PF, h_read. destruct (io =? io_MMap) eqn:E; [intros _; left; reflexivity|]. cbn. auto. Qed.
Lemma h_open_PF io nm ex f : PF io (fst (h_open io nm ex f)).
Proof. unfold PF, h_open. destruct (io =? io_MMap) eqn:E; [left; reflexivity|]. right. reflexivity. Qed.
Lemma h_reset_PF io nm f : PF io (fst (h_reset nm f)).
Proof. unfold PF, h_reset. right. reflexivity. Qed.
Lemma h_close_PF io io' nm f : PF io' (fst (h_close io nm f)).
Proof. unfold PF, h_close. right. destruct (io =? io_MMap); reflexivity. Qed.

Lemma lf_append_PF io nm fid f r : PF io f -> PF io (fst (fst (lf_append io nm fid f r))).
Proof.
  intros H. unfold lf_append. destruct (frame _ _ _ _) as [[p b'] s'].
  pose proof (h_write_PF io nm f [(r, p)] (b' * blockSize + s' - lf_size f) H) as Hw.
  destruct (h_write _ _ _ _ _) as [f' evs]. exact Hw.
Qed.
Lemma lf_append_all_PF io nm fid f rs : PF io f -> PF io (fst (fst (lf_append_all io nm fid f rs))).
Proof.
  intros H. unfold lf_append_all. destruct (frame_all _ _ _ _) as [[out b'] s'].
  pose proof (h_write_PF io nm f out (b' * blockSize + s' - lf_size f) H) as Hw.
  destruct (h_write _ _ _ _ _) as [f' evs]. exact Hw.
Qed.

Definition Keeps (d d' : db) : Prop := PhysInv d -> PhysInv d' /\ d_cfg d' = d_cfg d.
Lemma Keeps_refl d : Keeps d d. Proof. intros H. auto. Qed.
Lemma Keeps_trans a b c : Keeps a b -> Keeps b c -> Keeps a c.
Proof. intros H1 H2 Ha. destruct (H1 Ha) as [Hb E1]. destruct (H2 Hb) as [Hc E2]. split; [exact Hc|congruence]. Qed.
Lemma Keeps_ext d d' : d_cfg d' = d_cfg d -> d_active d' = d_active d -> d_older d' = d_older d -> Keeps d d'.
Proof. intros H1 H2 H3 [Ha Ho]. unfold PhysInv, io_of. rewrite H1, H2, H3. auto. Qed.

Lemma db_rotate_phys d d' evs : db_rotate d = (d', evs) -> Keeps d d'.
Proof.
  unfold db_rotate. pose proof (h_sync_PF (io_of d) (FData (d_active_id d)) (d_active d)) as Hs.
  destruct (h_sync _ _) as [a e1]. pose proof (h_open_PF (io_of d) (FData (d_active_id d + 1)) false lf_empty) as Hn.
  destruct (h_open _ _ _ _) as [n e2]. cbn [fst] in *.
  intros [= <- _] [Ha Ho]. split; [|reflexivity]. unfold PhysInv, io_of in *. cbn [d_cfg d_active d_older].
  split; [exact Hn|]. apply Forall_set; [exact Ho|]. cbn [snd]. auto.
Qed.

Lemma db_append_phys d r d' p evs : db_append d r = (d', p, evs) -> Keeps d d'.
Proof.
  intros Happ. unfold db_append in Happ.
  destruct (if c_fsize (d_cfg d) <? _ then db_rotate d else (d, [])) as [d1 ev1] eqn:Hrot.
  assert (K1 : Keeps d d1).
  { destruct (c_fsize (d_cfg d) <? _); [eapply db_rotate_phys; exact Hrot|injection Hrot as <- _; apply Keeps_refl]. }
  eapply Keeps_trans; [exact K1|]. intros [Ha Ho].
  pose proof (lf_append_PF (io_of d1) (FData (d_active_id d1)) (d_active_id d1) (d_active d1) r Ha) as Hl.
  destruct (lf_append _ _ _ _ r) as [[a p0] ev2]. cbn [fst] in Hl.
  destruct (_ || _).
  - pose proof (h_sync_PF (io_of d1) (FData (d_active_id d1)) a Hl) as Hs.
    destruct (h_sync _ a) as [a' ev3]. injection Happ as <- _ _. split; [|reflexivity].
    unfold PhysInv, io_of in *. cbn. auto.
  - injection Happ as <- _ _. split; [|reflexivity]. unfold PhysInv, io_of in *. cbn. auto.
Qed.

Lemma db_put_phys d k v d' e evs : db_put d k v = (d', e, evs) -> Keeps d d'.
Proof.
  unfold db_put. destruct (len k =? 0); [intros [= <- _ _]; apply Keeps_refl|].
  destruct (db_append d _) as [[d1 p] ev1] eqn:Happ. destruct (idx_put _ _ _) as [ix old].
  intros [= <- _ _]. eapply Keeps_trans; [eapply db_append_phys; exact Happ|apply Keeps_ext; reflexivity].
Qed.
Lemma db_delete_phys d k d' e evs : db_delete d k = (d', e, evs) -> Keeps d d'.
Proof.
  unfold db_delete. destruct (len k =? 0); [intros [= <- _ _]; apply Keeps_refl|].
  destruct (idx_get (d_index d) k); [|intros [= <- _ _]; apply Keeps_refl].
  destruct (db_append d _) as [[d1 p1] ev1] eqn:Happ. destruct (idx_del _ _) as [ix old].
  intros H. eapply Keeps_trans; [eapply db_append_phys; exact Happ|].
  destruct old; injection H as <- _ _; apply Keeps_ext; reflexivity.
Qed.

Lemma Forall_older_get (Q : lfile -> Prop) o id f : Forall (fun x => Q (snd x)) o -> older_get o id = Some f -> Q f.
Proof. intros H Hg. rewrite Forall_forall in H. exact (H _ (older_get_some_in _ _ _ Hg)). Qed.

Lemma db_read_phys d p d' r evs : db_read d p = (d', r, evs) -> Keeps d d'.
Proof.
  unfold db_read. destruct (p_fid p =? d_active_id d).
  - pose proof (fun H => h_read_PF (io_of d) (FData (d_active_id d)) (d_active d) (fst (read_span (d_active d) p)) (snd (read_span (d_active d) p)) H) as Hr.
    destruct (h_read _ _ _ _ _) as [a evs0]. cbn [fst] in Hr.
    destruct (lf_lookup _ _ _); intros [= <- _ _] [Ha Ho]; (split; [|reflexivity]); unfold PhysInv, io_of in *; cbn; auto.
  - destruct (older_get (d_older d) (p_fid p)) as [f|] eqn:Hg; [|intros [= <- _ _]; apply Keeps_refl].
    pose proof (fun H => h_read_PF (io_of d) (FData (p_fid p)) f (fst (read_span f p)) (snd (read_span f p)) H) as Hr.
    destruct (h_read _ _ _ _ _) as [f' evs0]. cbn [fst] in Hr.
    destruct (lf_lookup _ _ _); intros [= <- _ _] [Ha Ho]; (split; [|reflexivity]); unfold PhysInv, io_of in *; cbn [set_older d_cfg d_active d_older];
      (split; [exact Ha|]); (apply Forall_set; [exact Ho|]); cbn [snd]; apply Hr; exact (Forall_older_get _ _ _ _ Ho Hg).
Qed.
Lemma db_get_phys d k d' r evs : db_get d k = (d', r, evs) -> Keeps d d'.
Proof.
  unfold db_get. destruct (len k =? 0); [intros [= <- _ _]; apply Keeps_refl|].
  destruct (idx_get (d_index d) k); [apply db_read_phys|intros [= <- _ _]; apply Keeps_refl].
Qed.
Lemma db_fold_aux_phys : forall ix d d' r evs, db_fold_aux d ix = (d', r, evs) -> Keeps d d'.
Proof.
  induction ix as [|[k p] ix IH]; intros d d' r evs H; cbn [db_fold_aux] in H; [injection H as <- _ _; apply Keeps_refl|].
  destruct (db_read d p) as [[d1 v] ev1] eqn:Hr. destruct v as [v|e].
  - destruct (db_fold_aux d1 ix) as [[d2 rr] ev2] eqn:Hf.
    assert (d' = d2) by (destruct rr; injection H as <- _ _; reflexivity). subst d'.
    eapply Keeps_trans; [eapply db_read_phys; exact Hr|eapply IH; exact Hf].
  - injection H as <- _ _. eapply db_read_phys; exact Hr.
Qed.
Lemma db_sync_phys d d' evs : db_sync d = (d', evs) -> Keeps d d'.
Proof.
  unfold db_sync. pose proof (h_sync_PF (io_of d) (FData (d_active_id d)) (d_active d)) as Hs.
  destruct (h_sync _ _) as [a e]. intros [= <- _] [Ha Ho]. split; [|reflexivity]. unfold PhysInv, io_of in *. cbn. auto.
Qed.

Lemma apply_staged_cfg : forall l dd, d_cfg (apply_staged dd l) = d_cfg dd.
Proof. induction l as [|[r p] l IH]; intros dd; [reflexivity|]. rewrite apply_staged_cons, IH. apply (index_step_files dd r p). Qed.
Lemma replay_recs_cfg : forall rs d t, d_cfg (fst (replay_recs d t rs)) = d_cfg d.
Proof.
  induction rs as [|[r p] rs IH]; intros d t; cbn [replay_recs]; [reflexivity|].
  destruct (r_batch r =? 0); [rewrite IH, update_index_eq; apply (index_step_files d r p)|].
  destruct (r_type r =? rt_BatchFinished); [rewrite IH, fold_update_index; apply apply_staged_cfg|apply IH].
Qed.

Lemma replay_files_cfg : forall files d t from, d_cfg (fst (replay_files d t files from)) = d_cfg d.
Proof.
  induction files as [|[i g] fs IH]; intros d t from; cbn [replay_files]; [reflexivity|].
  destruct (i <? from); [apply IH|]. pose proof (replay_recs_cfg (lf_recs g) d t) as Hc.
  destruct (replay_recs d t (lf_recs g)) as [dd tt]. cbn [fst] in Hc. rewrite IH. exact Hc.
Qed.

Lemma batch_flush_phys d b d' b' evs : batch_flush d b = (d', b', evs) -> Keeps d d'.
Proof.
  intros Hfl. unfold batch_flush in Hfl.
  destruct (if _ && _ then db_rotate d else (d, [])) as [d1 ev1] eqn:Hrot.
  assert (K1 : Keeps d d1).
  { destruct (_ && _); [eapply db_rotate_phys; exact Hrot|injection Hrot as <- _; apply Keeps_refl]. }
  eapply Keeps_trans; [exact K1|]. intros [Ha Ho].
  match type of Hfl with context [lf_append_all ?io ?nm ?fid ?f ?rs] =>
    pose proof (lf_append_all_PF io nm fid f rs Ha) as Hl; destruct (lf_append_all io nm fid f rs) as [[a ps] ev2] end.
  cbn [fst] in Hl.
  assert (Ha' : forall a' ev3, (if b_sync b then h_sync (FData (d_active_id d1)) a else (a, [])) = (a', ev3) -> PF (io_of d1) a').
  { intros a' ev3 H. destruct (b_sync b); [|injection H as <- _; exact Hl].
    pose proof (h_sync_PF (io_of d1) (FData (d_active_id d1)) a Hl) as Hs. rewrite H in Hs. exact Hs. }
  destruct (if b_sync b then _ else _) as [a' ev3] eqn:Hsy. specialize (Ha' a' ev3 eq_refl). injection Hfl as <- _ _.
  match goal with |- PhysInv (apply_staged ?dd ?l) /\ _ => destruct (apply_staged_files l dd) as (F1 & F2 & F3);
    pose proof (apply_staged_cfg l dd) as Fc end.
  split; [|rewrite Fc; reflexivity]. unfold PhysInv, io_of in *. rewrite Fc, F2, F3. cbn. auto.
Qed.
Lemma batch_flush_rotate_phys d b d' b' evs : batch_flush_rotate d b = (d', b', evs) -> Keeps d d'.
Proof.
  unfold batch_flush_rotate. destruct (batch_flush d b) as [[d1 b1] ev1] eqn:Hfl.
  destruct (db_rotate d1) as [d2 ev2] eqn:Hrot. intros [= <- _ _].
  eapply Keeps_trans; [eapply batch_flush_phys; exact Hfl|eapply db_rotate_phys; exact Hrot].
Qed.
Lemma batch_put_phys d b k v d' b' e evs : batch_put d b k v = (d', b', e, evs) -> Keeps d d'.
Proof.
  unfold batch_put. destruct (len k =? 0); [intros [= <- _ _ _]; apply Keeps_refl|].
  destruct (b_committed b); [intros [= <- _ _ _]; apply Keeps_refl|].
  destruct (staged_find (b_staged b) k) as [r|].
  - destruct (_ <? _).
    + destruct (batch_flush_rotate d b) as [[d1 b1] ev1] eqn:Hfl. intros [= <- _ _ _]. eapply batch_flush_rotate_phys; exact Hfl.
    + intros [= <- _ _ _]. apply Keeps_refl.
  - destruct (_ <? _).
    + destruct (batch_flush_rotate d b) as [[d1 b1] ev1] eqn:Hfl. intros [= <- _ _ _]. eapply batch_flush_rotate_phys; exact Hfl.
    + intros [= <- _ _ _]. apply Keeps_refl.
Qed.
Lemma batch_delete_phys d b k d' b' e evs : batch_delete d b k = (d', b', e, evs) -> Keeps d d'.
Proof.
  unfold batch_delete. destruct (len k =? 0); [intros [= <- _ _ _]; apply Keeps_refl|].
  destruct (b_committed b); [intros [= <- _ _ _]; apply Keeps_refl|].
  destruct (staged_find (b_staged b) k) as [r|]; [intros [= <- _ _ _]; apply Keeps_refl|].
  destruct (idx_get (d_index d) k); [|intros [= <- _ _ _]; apply Keeps_refl].
  destruct (_ <? _).
  - destruct (batch_flush_rotate d b) as [[d1 b1] ev1] eqn:Hfl. intros [= <- _ _ _]. eapply batch_flush_rotate_phys; exact Hfl.
  - intros [= <- _ _ _]. apply Keeps_refl.
Qed.
Lemma batch_get_phys d b k d' r evs : batch_get d b k = (d', r, evs) -> Keeps d d'.
Proof.
  unfold batch_get. destruct (len k =? 0); [intros [= <- _ _]; apply Keeps_refl|].
  destruct (b_committed b); [intros [= <- _ _]; apply Keeps_refl|].
  destruct (staged_find (b_staged b) k) as [r0|]; [destruct (r_type r0 =? rt_Deleted); intros [= <- _ _]; apply Keeps_refl|].
  destruct (idx_get (d_index d) k) as [p|]; [apply db_read_phys|intros [= <- _ _]; apply Keeps_refl].
Qed.
Lemma batch_commit_phys d b d' b' e evs : batch_commit d b = (d', b', e, evs) -> Keeps d d'.
Proof.
  unfold batch_commit. destruct (b_committed b); [intros [= <- _ _ _]; apply Keeps_refl|].
  destruct (b_staged b) as [|r0 rs]; [intros [= <- _ _ _]; apply Keeps_refl|].
  destruct (batch_flush d _) as [[d1 b1] ev1] eqn:Hfl. intros H.
  eapply Keeps_trans; [eapply batch_flush_phys; exact Hfl|]. intros [Ha Ho].
  match type of H with context [lf_append ?io ?nm ?fid ?f ?r] =>
    pose proof (lf_append_PF io nm fid f r Ha) as Hl; destruct (lf_append io nm fid f r) as [[a p] ev2] end.
  cbn [fst] in Hl.
  assert (Ha' : forall a' ev3, (if b_sync b then h_sync (FData (d_active_id d1)) a else (a, [])) = (a', ev3) -> PF (io_of d1) a').
  { intros a' ev3 H0. destruct (b_sync b); [|injection H0 as <- _; exact Hl].
    pose proof (h_sync_PF (io_of d1) (FData (d_active_id d1)) a Hl) as Hs. rewrite H0 in Hs. exact Hs. }
  destruct (if b_sync b then _ else _) as [a' ev3] eqn:Hsy. specialize (Ha' a' ev3 eq_refl). injection H as <- _ _ _.
  split; [|reflexivity]. unfold PhysInv, io_of in *. cbn. auto.
Qed.
Lemma run_bops_phys : forall bops d b d' b' rs evs, run_bops d b bops = (d', b', rs, evs) -> Keeps d d'.
Proof.
  induction bops as [|o bops IH]; intros d b d' b' rs evs H; cbn [run_bops] in H; [injection H as <- _ _ _; apply Keeps_refl|].
  destruct o as [k v|k|k].
  - destruct (batch_put d b k v) as [[[d1 b1] e] ev1] eqn:Hp. destruct (run_bops d1 b1 bops) as [[[d2 b2] rs2] ev2] eqn:Hr.
    injection H as <- _ _ _. eapply Keeps_trans; [eapply batch_put_phys; exact Hp|eapply IH; exact Hr].
  - destruct (batch_delete d b k) as [[[d1 b1] e] ev1] eqn:Hp. destruct (run_bops d1 b1 bops) as [[[d2 b2] rs2] ev2] eqn:Hr.
    injection H as <- _ _ _. eapply Keeps_trans; [eapply batch_delete_phys; exact Hp|eapply IH; exact Hr].
  - destruct (batch_get d b k) as [[d1 v] ev1] eqn:Hg. destruct (run_bops d1 b bops) as [[[d2 b2] rs2] ev2] eqn:Hr.
    injection H as <- _ _ _. eapply Keeps_trans; [eapply batch_get_phys; exact Hg|eapply IH; exact Hr].
Qed.

Lemma merge_files_phys c : forall order d nm m d' res evs, c_io c = io_of d ->
  merge_files c d order nm m = (d', res, evs) -> Keeps d d'.
Proof.
  induction order as [|fid order IH]; intros d nm m d' res evs Hc H; cbn [merge_files] in H; [injection H as <- _ _; apply Keeps_refl|].
  destruct (older_get (d_older d) fid) as [f|] eqn:Hg; [|eapply IH; eassumption].
  assert (Ht : PF (io_of d) f -> PF (io_of d) (fst (scan_touch (c_io c) (FData fid) f))).
  { unfold scan_touch. destruct (lf_size f =? 0); [auto|]. rewrite Hc. apply h_read_PF. }
  destruct (scan_touch (c_io c) (FData fid) f) as [f' ev0]. cbn [fst] in Ht.
  set (d1 := set_older d (older_set (d_older d) fid f')) in *.
  assert (K1 : Keeps d d1).
  { intros [Ha Ho]. split; [|reflexivity]. unfold PhysInv, io_of, d1 in *. cbn [set_older d_cfg d_active d_older].
    split; [exact Ha|]. apply Forall_set; [exact Ho|]. cbn [snd]. apply Ht. exact (Forall_older_get _ _ _ _ Ho Hg). }
  destruct (merge_file c (d_index d1) fid nm m (lf_recs f')) as [res1 ev1]. destruct res1 as [m'|e m'].
  - destruct (merge_files c d1 order nm m') as [[d2 res2] ev2] eqn:Hrest. injection H as <- _ _.
    eapply Keeps_trans; [exact K1|eapply IH; [|exact Hrest]]. exact Hc.
  - injection H as <- _ _. exact K1.
Qed.
Lemma db_merge_phys d k order d' k' e evs : db_merge d k order = (d', k', e, evs) -> Keeps d d'.
Proof.
  intros Hm. unfold db_merge in Hm. destruct (db_rotate d) as [d1 ev1] eqn:Hrot.
  destruct (h_open _ _ _ _) as [a0 ev3]. destruct (hf_open_new _) as [h0 ev4].
  destruct (merge_files (d_cfg d) d1 order (d_active_id d1) _) as [[d2 res] ev5] eqn:Hmf.
  assert (K2 : Keeps d d2).
  { eapply Keeps_trans; [eapply db_rotate_phys; exact Hrot|]. intros H1.
    assert (Hc1 : d_cfg d1 = d_cfg d) by (unfold db_rotate in Hrot; destruct (h_sync _ _); destruct (h_open _ _ _ _); injection Hrot as <- _; reflexivity).
    eapply (merge_files_phys (d_cfg d)); [|exact Hmf|exact H1]. unfold io_of. rewrite Hc1. reflexivity. }
  destruct res as [ms|er ms]; [|injection Hm as <- _ _ _; exact K2].
  destruct (hf_close _ _) as [h1 ev6]. destruct (h_close _ _ _) as [a1 ev7]. destruct (ms_close_older _ _) as [o1 ev8].
  destruct (db_sync d2) as [d3 evS] eqn:Hsy.
  injection Hm as <- _ _ _. eapply Keeps_trans; [exact K2|eapply db_sync_phys; exact Hsy].
Qed.

(* Open: whatever the directory holds, the opened files satisfy the invariant *)
Lemma open_all_PF io : forall files, Forall (fun x => PF io (snd x)) (fst (open_all io files)).
Proof.
  induction files as [|[id f] files IH]; cbn [open_all fst]; [constructor|].
  pose proof (h_open_PF io (FData id) true f) as H. destruct (h_open io (FData id) true f) as [f' ev1].
  destruct (open_all io files) as [rest ev2]. cbn [fst] in *. constructor; [exact H|exact IH].
Qed.

Theorem db_open_phys c k d k' evs : db_open c k = (OpenOk d k', evs) -> PhysInv d /\ d_cfg d = c.
Proof.
  intros H. unfold db_open in H. destruct (load_merge_files k) as [[k1 mid] ev1].
  pose proof (open_all_PF (c_io c) (k_data k1)) as Hof. destruct (open_all (c_io c) (k_data k1)) as [files ev2]. cbn [fst] in Hof.
  destruct (if 0 <? mid then _ else ([], k1, [])) as [[hintrecs k2] ev3].
  destruct (load_hint _ hintrecs 0) as [d1 hinted].
  set (from := if 0 <? mid then _ else 0) in *.
  destruct (split_last files) as [[older [aid af]]|] eqn:Esl.
  - destruct (split_last_forall _ _ _ _ Hof Esl) as [Ho Ha]. cbn [snd] in Ha.
    set (d2 := mkDb c aid af older (d_index d1) 0 (d_total d1) (d_reclaim d1)) in *.
    destruct (replay_files_files files d2 [] from) as (G2 & G3 & _).
    pose proof (replay_files_cfg files d2 [] from) as Gc. change (d_cfg d2) with c in Gc.
    destruct (replay_files d2 [] files from) as [d3 t3]. cbn [fst d2 d_active d_older] in *.
    assert (H3 : PhysInv d3) by (unfold PhysInv, io_of; rewrite Gc, G2, G3; auto).
    destruct ((from <=? aid) && lf_torn af).
    + destruct (db_rotate d3) as [d4 ev5] eqn:Hrot. injection H as <- _ _.
      destruct (db_rotate_phys _ _ _ Hrot H3) as [H4 Hc4]. split; [exact H4|congruence].
    + injection H as <- _ _. auto.
  - pose proof (h_open_PF (c_io c) (FData 0) false lf_empty) as Hn.
    destruct (h_open (c_io c) (FData 0) false lf_empty) as [n ev]. cbn [fst] in Hn.
    pose proof (split_last_spec files) as Hsl. rewrite Esl in Hsl. subst files.
    cbn [replay_files fst snd andb] in H. injection H as <- _ _. split; [|reflexivity].
    unfold PhysInv, io_of. cbn. auto.
Qed.

(* ---- every history keeps the invariant ---------------------------------------------------------------- *)
Theorem step_phys d k o d' k' r evs : PhysInv d -> step (d, k) o = ((d', k'), r, evs) -> PhysInv d'.
Proof.
  intros HP Hst. destruct o as [key v|key|key| | | | |sync id bops|order|c]; cbn [step] in Hst.
  - destruct (db_put d key v) as [[d1 e] ev1] eqn:Hp. injection Hst as <- _ _ _. exact (proj1 (db_put_phys _ _ _ _ _ _ Hp HP)).
  - destruct (db_get d key) as [[d1 vv] ev1] eqn:Hg. injection Hst as <- _ _ _. exact (proj1 (db_get_phys _ _ _ _ _ Hg HP)).
  - destruct (db_delete d key) as [[d1 e] ev1] eqn:Hp. injection Hst as <- _ _ _. exact (proj1 (db_delete_phys _ _ _ _ _ Hp HP)).
  - injection Hst as <- _ _ _. exact HP.
  - destruct (db_fold d) as [[d1 rr] ev1] eqn:Hf. injection Hst as <- _ _ _. exact (proj1 (db_fold_aux_phys _ _ _ _ _ Hf HP)).
  - destruct (db_stat d) as [[[kn fn] rc] tot]. injection Hst as <- _ _ _. exact HP.
  - destruct (db_sync d) as [d1 ev1] eqn:Hs. injection Hst as <- _ _ _. exact (proj1 (db_sync_phys _ _ _ Hs HP)).
  - destruct (run_bops d (new_batch sync id) bops) as [[[d1 b1] rs] ev1] eqn:Hr.
    destruct (batch_commit d1 b1) as [[[d2 b2] e] ev2] eqn:Hc. injection Hst as <- _ _ _.
    exact (proj1 (batch_commit_phys _ _ _ _ _ _ Hc (proj1 (run_bops_phys _ _ _ _ _ _ _ Hr HP)))).
  - destruct (db_merge d k order) as [[[d1 k1] e] ev] eqn:Hm. injection Hst as <- _ _ _. exact (proj1 (db_merge_phys _ _ _ _ _ _ _ Hm HP)).
  - destruct (db_close d k) as [k1 ev1]. destruct (db_open c k1) as [[d1 k2|e k2] ev2] eqn:Ho.
    + injection Hst as <- _ _ _. exact (proj1 (db_open_phys _ _ _ _ _ Ho)).
    + injection Hst as <- _ _ _. exact HP.
Qed.

Theorem run_phys : forall ops d k s' rs evs, PhysInv d -> run (d, k) ops = (s', rs, evs) -> PhysInv (fst s').
Proof.
  induction ops as [|o ops IH]; intros d k s' rs evs HP Hrun; cbn [run] in Hrun; [injection Hrun as <- _ _; exact HP|].
  destruct (step (d, k) o) as [[[d1 k1] r] ev1] eqn:Hst. destruct (run (d1, k1) ops) as [[s2 rs2] ev2] eqn:Hr2.
  injection Hrun as <- _ _. exact (IH _ _ _ _ _ (step_phys _ _ _ _ _ _ _ HP Hst) Hr2).
Qed.

(* ---- a directory copy of the open database ------------------------------------------------------------- *)
Lemma closed_disk_ok d M o a :
  LogInv d M -> Forall2 closed_of o (d_older d) ->
  lf_recs a = lf_recs (d_active d) -> lf_size a = lf_size (d_active d) -> lf_phys a = lf_size (d_active d) ->
  asc (older_set o (d_active_id d) a) /\ Forall file_ok (older_set o (d_active_id d) a) /\
  files_log (older_set o (d_active_id d) a) = log d.
Proof.
  intros [(HI & HO & HP & HR & Hm) Ht] Hcl A1 A2 A3.
  pose proof (closed_ids_below _ _ _ Hcl HO) as Hbo. rewrite (older_set_append o (d_active_id d) a Hbo).
  split; [apply ids_below_asc_app; exact Hbo|]. split.
  - apply Forall_app. split.
    + destruct HI as [[_ Hold] _]. destruct HP as [_ Hpo].
      apply (closed_file_ok _ _ Hcl). intros id f Hin.
      assert (Hg : older_get (d_older d) id = Some f).
      { apply asc_get_in; [|exact Hin]. unfold InvO in HO. clear - HO.
        induction (d_older d) as [|[i g] l IH]; cbn in *; [auto|]. destruct HO as (_ & H2 & H3). auto. }
      split; [apply (Hold _ _ Hg)|apply (Hpo _ _ Hg)].
    + constructor; [|constructor]. destruct HI as [[Hact _] _]. destruct HP as [Hpa _].
      split; [|split]; cbn [fst snd].
      * intros r p Hrp. rewrite A1 in Hrp. rewrite A2. apply (Hact r p). exact Hrp.
      * eapply pos_ok_same; eassumption.
      * congruence.
  - rewrite files_log_app, files_log_single, (closed_files_log _ _ Hcl). unfold log, file_log. rewrite A1. reflexivity.
Qed.

Lemma reset_all_spec : forall files, Forall2 closed_of (fst (reset_all files)) files.
Proof.
  induction files as [|[id f] files IH]; cbn [reset_all fst]; [constructor|].
  unfold h_reset. destruct (reset_all files) as [rest ev2]. cbn [fst] in *.
  constructor; [split; [reflexivity|cbn; auto]|exact IH].
Qed.
Lemma closed_refl_phys io o : (io =? io_MMap) = false -> Forall (fun x => PF io (snd x)) o -> Forall2 closed_of o o.
Proof.
  intros Hio. induction 1 as [|x o [H|H] _ IH]; [constructor|rewrite Hio in H; discriminate|].
  constructor; [split; [reflexivity|auto]|exact IH].
Qed.
Lemma closed_same_frecs a b : Forall2 closed_of a b -> Forall2 same_frecs a b.
Proof. induction 1 as [|x y a b (H1 & H2 & _) _ IH]; constructor; [split; assumption|exact IH]. Qed.

(* Backup: the source keeps its mapping and stays usable; the copy is a directory that opens, under
   any configuration, as an independent database with exactly the source's mapping at that time *)
Theorem db_backup_spec d k M c d' kb evs :
  LogInv d M -> PhysInv d -> db_backup d k = (d', kb, evs) ->
  LogInv d' M /\ PhysInv d' /\ d_cfg d' = d_cfg d /\ log d' = log d /\
  k_merge kb = None /\ k_hint kb = k_hint k /\ files_log (k_data kb) = log d /\
  exists dd k2 ev2, db_open c kb = (OpenOk dd k2, ev2) /\ LogInv dd M /\ d_cfg dd = c /\ k_merge k2 = None.
Proof.
  intros HL HPh Hb. pose proof HL as [(HI & HO & HP & HR & Hm) Ht].
  assert (Hshape : exists o a, Forall2 closed_of o (d_older d) /\ lf_recs a = lf_recs (d_active d) /\
            lf_size a = lf_size (d_active d) /\ lf_phys a = lf_size (d_active d) /\
            d' = set_older (set_active d (d_active_id d) a) o /\ kb = mkDisk (older_set o (d_active_id d) a) (k_hint k) None /\
            PF (io_of d) a /\ Forall (fun x => PF (io_of d) (snd x)) o).
  { unfold db_backup in Hb. destruct (io_of d =? io_MMap) eqn:Eio.
    - pose proof (reset_all_spec (d_older d)) as Hcl. unfold h_reset in Hb.
      destruct (reset_all (d_older d)) as [o ev2]. cbn [fst] in Hcl. injection Hb as <- <- _.
      exists o, (fst (h_reset (FData (d_active_id d)) (d_active d))). unfold h_reset. cbn [fst].
      split; [exact Hcl|]. cbn [lf_recs lf_size lf_phys]. repeat (split; [reflexivity|]).
      split; [left; exact Eio|]. apply Forall_forall. intros x _. left. exact Eio.
    - injection Hb as <- <- _. destruct HPh as [Hpa Hpo].
      exists (d_older d), (d_active d). split; [eapply closed_refl_phys; eassumption|].
      destruct Hpa as [Hpa|Hpa]; [rewrite Eio in Hpa; discriminate|].
      repeat (split; [reflexivity|]). split; [exact Hpa|]. split; [destruct d; reflexivity|]. split; [reflexivity|].
      split; [right; exact Hpa|exact Hpo]. }
  destruct Hshape as (o & a & Hcl & A1 & A2 & A3 & -> & -> & Hpa & Hpo).
  destruct (closed_disk_ok d M o a HL Hcl A1 A2 A3) as (Hasc & Hok & Hlog).
  set (d' := set_older (set_active d (d_active_id d) a) o).
  assert (Hsf : same_files d d') by (split; [reflexivity|]; split; [exact A1|apply closed_same_frecs; exact Hcl]).
  assert (HF' : InvF d').
  { destruct HI as [[Hact Hold] _]. split; cbn [d' set_older set_active d_active d_older d_active_id].
    - intros r p Hrp. rewrite A1 in Hrp. rewrite A2. apply (Hact r p). exact Hrp.
    - intros id f Hg. destruct (same_frecs_get _ _ _ _ (closed_same_frecs _ _ Hcl) Hg) as (g & Hgg & Hr).
      destruct (Hold _ _ Hgg) as [Hwf Hlt]. split; [|exact Hlt].
      (* sizes: closed_of keeps the size *)
      assert (Hsz : lf_size f = lf_size g).
      { clear - Hcl Hg Hgg. induction Hcl as [|[i x] [j y] o0 l (Hi & _ & Hs & _) _ IH]; cbn [older_get fst snd] in *; [discriminate|].
        subst j. destruct (i =? id); [injection Hg as <-; injection Hgg as <-; exact Hs|auto]. }
      intros r p Hrp. rewrite Hr in Hrp. rewrite Hsz. apply (Hwf r p). exact Hrp. }
  assert (Hsr : same_recs d d').
  { split; [|reflexivity]. intros q. unfold rec_at, file_of. cbn [d' set_older set_active d_active d_older d_active_id].
    destruct (p_fid q =? d_active_id d); [rewrite A1; reflexivity|].
    destruct (older_get o (p_fid q)) as [f|] eqn:Hg.
    - destruct (same_frecs_get _ _ _ _ (closed_same_frecs _ _ Hcl) Hg) as (g & Hgg & Hr). rewrite Hgg, Hr. reflexivity.
    - destruct (older_get (d_older d) (p_fid q)) as [g|] eqn:Hgg; [|reflexivity].
      exfalso. apply (closed_get _ _ (p_fid q) Hcl) in Hg. congruence. }
  assert (HI' : Inv d') by (eapply Inv_same; eassumption).
  assert (HR' : R d' M) by (eapply R_same; eassumption).
  split; [eapply LogInv_same_files; eassumption|]. split; [split; assumption|]. split; [reflexivity|].
  split; [exact (proj1 (same_files_props _ _ Hsf))|]. split; [reflexivity|]. split; [reflexivity|]. split; [exact Hlog|].
  assert (Hdk : disk_ok (mkDisk (older_set o (d_active_id d) a) (k_hint k) None)) by (split; [reflexivity|split; assumption]).
  destruct (db_open_spec c _ Hdk) as (dd & k2 & ev2 & Ho & HLO & Hlog' & Hcfg & Hnm2). cbn [k_data] in *.
  exists dd, k2, ev2. split; [exact Ho|]. rewrite Hlog, Hm in HLO.
  split; [split; [exact HLO|rewrite Hlog', Hlog; exact Ht]|auto].
Qed.
