(* EngineInv.v — the engine invariant and the effect of Put / Delete / Get / rotation on the
   abstract map "key -> value of the record its index entry points to". *)
From Coq Require Import ZArith Lia ZifyN ZifyNat ZifyBool Sorting.Sorted.
From KV Require Import Bytes GenConsts Chunk Record Engine Script BytesLemmas AMapLemmas EngineFiles.
Open Scope N_scope.

Definition file_of (d : db) (fid : N) : option lfile :=
  if fid =? d_active_id d then Some (d_active d) else older_get (d_older d) fid.
Definition rec_at (d : db) (p : pos) : option record :=
  match file_of d (p_fid p) with
  | Some f => lf_lookup (lf_recs f) (p_bid p) (p_off p)
  | None => None
  end.
(* the value an index entry stands for: the value of the record it points to, which is never a
   tombstone (Merge rewrites the records the index points to with their type) *)
Definition val_at (d : db) (p : pos) : option bytes :=
  match rec_at d p with
  | Some r => if r_type r =? rt_Deleted then None else Some (r_value r)
  | None => None
  end.

(* files part of the invariant *)
Definition InvF (d : db) : Prop :=
  wf_lfile (d_active d) /\
  (forall id f, older_get (d_older d) id = Some f -> wf_lfile f /\ id < d_active_id d).
(* index part *)
Definition InvI (d : db) : Prop :=
  sorted (d_index d) /\
  (forall k p, In (k, p) (d_index d) ->
     exists r, rec_at d p = Some r /\ r_key r = k /\ (r_type r =? rt_Deleted) = false).
Definition Inv (d : db) : Prop := InvF d /\ InvI d.

(* d' has every record d has, at the same positions *)
Definition extends (d d' : db) : Prop := forall q x, rec_at d q = Some x -> rec_at d' q = Some x.
Lemma extends_refl d : extends d d. Proof. intros q x H. exact H. Qed.
Lemma extends_trans a b c : extends a b -> extends b c -> extends a c.
Proof. intros H1 H2 q x H. apply H2, H1, H. Qed.

(* ---- older_get / older_set ----------------------------------------------------------- *)
Lemma older_get_set o id f id' :
  older_get (older_set o id f) id' = if id' =? id then Some f else older_get o id'.
Proof.
  induction o as [|[i g] o IH]; cbn [older_set older_get].
  - destruct (id =? id') eqn:E; destruct (id' =? id) eqn:E2; try lia; reflexivity.
  - destruct (i =? id) eqn:E1.
    + cbn [older_get]. assert (i = id) by lia. subst i.
      destruct (id =? id') eqn:E; destruct (id' =? id) eqn:E2; try lia; reflexivity.
    + destruct (id <? i) eqn:E2.
      * cbn [older_get]. destruct (id =? id') eqn:E; destruct (id' =? id) eqn:E3; try lia; reflexivity.
      * cbn [older_get]. destruct (i =? id') eqn:E3.
        -- destruct (id' =? id) eqn:E4; [lia|reflexivity].
        -- exact IH.
Qed.

(* ---- facts about the small setters --------------------------------------------------- *)
Lemma rec_at_ext d d' : d_active_id d' = d_active_id d -> d_active d' = d_active d -> d_older d' = d_older d ->
  forall p, rec_at d' p = rec_at d p.
Proof. intros H1 H2 H3 p. unfold rec_at, file_of. rewrite H1, H2, H3. reflexivity. Qed.

Lemma in_amap_put {V} (m : amap V) k v x : In x (fst (amap_put m k v)) -> x = (k, v) \/ In x m.
Proof.
  induction m as [|[k0 v0] m IH]; cbn [amap_put fst].
  - intros [H|[]]; auto.
  - destruct (bytes_eqb k k0).
    + cbn [fst]. intros [H|H]; [auto|right; right; exact H].
    + destruct (bytes_ltb k k0).
      * cbn [fst]. intros [H|H]; [auto|right; exact H].
      * destruct (amap_put m k v) as [r o]. cbn [fst] in *. intros [H|H].
        -- right; left; exact H.
        -- destruct (IH H) as [E|E]; [auto|right; right; exact E].
Qed.
Lemma in_amap_del {V} (m : amap V) k x : In x (fst (amap_del m k)) -> In x m.
Proof.
  induction m as [|[k0 v0] m IH]; cbn [amap_del fst]; [auto|].
  destruct (bytes_eqb k k0).
  - cbn [fst]. intros H. right. exact H.
  - destruct (amap_del m k) as [r o]. cbn [fst] in *. intros [H|H]; [left; exact H|right; apply IH; exact H].
Qed.

(* ---- rotation -------------------------------------------------------------------------- *)
Lemma db_rotate_spec d d' evs :
  InvF d -> db_rotate d = (d', evs) ->
  InvF d' /\ (forall p, rec_at d' p = rec_at d p) /\ d_index d' = d_index d /\ d_cfg d' = d_cfg d /\
  lf_size (d_active d') = 0 /\ d_total d' = d_total d /\ d_reclaim d' = d_reclaim d.
Proof.
  intros [Hact Hold] Hrot. unfold db_rotate in Hrot.
  destruct (h_sync (FData (d_active_id d)) (d_active d)) as [a ev1] eqn:Hs.
  destruct (h_open (io_of d) (FData (d_active_id d + 1)) false lf_empty) as [n ev2] eqn:Ho.
  injection Hrot as <- <-.
  assert (Ha : lf_recs a = lf_recs (d_active d) /\ lf_size a = lf_size (d_active d)).
  { pose proof (h_sync_same (FData (d_active_id d)) (d_active d)) as H. rewrite Hs in H. exact H. }
  assert (Hn : lf_recs n = [] /\ lf_size n = 0).
  { pose proof (h_open_new (io_of d) (FData (d_active_id d + 1))) as H. rewrite Ho in H. exact H. }
  destruct Ha as [Ha1 Ha2]. destruct Hn as [Hn1 Hn2].
  split; [|split; [|repeat split; auto]].
  - split; cbn [d_active d_older d_active_id].
    + intros r p Hin. rewrite Hn1 in Hin. destruct Hin.
    + intros id f Hget. rewrite older_get_set in Hget.
      destruct (id =? d_active_id d) eqn:E.
      * injection Hget as <-. split; [|lia].
        intros r p Hin. rewrite Ha1 in Hin. rewrite Ha2. apply (Hact r p). exact Hin.
      * destruct (Hold id f Hget) as [H1 H2]. split; [exact H1|lia].
  - intros p. unfold rec_at, file_of. cbn [d_active d_older d_active_id].
    destruct (p_fid p =? d_active_id d + 1) eqn:E1.
    + rewrite Hn1. cbn [lf_lookup].
      destruct (p_fid p =? d_active_id d) eqn:E2; [lia|].
      destruct (older_get (d_older d) (p_fid p)) as [f|] eqn:E3; [|reflexivity].
      destruct (Hold _ _ E3) as [_ H]. lia.
    + rewrite older_get_set. destruct (p_fid p =? d_active_id d) eqn:E2.
      * rewrite Ha1. reflexivity.
      * reflexivity.
Qed.

(* ---- appendLogRecord ----------------------------------------------------------------------- *)
Lemma db_append_spec d r d' p evs :
  InvF d -> db_append d r = (d', p, evs) ->
  InvF d' /\ extends d d' /\ rec_at d' p = Some r /\ rec_at d p = None /\
  d_index d' = d_index d /\ d_cfg d' = d_cfg d /\
  d_total d' = d_total d + p_size p /\ d_reclaim d' = d_reclaim d.
Proof.
  intros HF Happ. unfold db_append in Happ.
  set (est := disk_size_estimate (len (r_key r)) (len (r_value r))) in *.
  destruct (if c_fsize (d_cfg d) <? lf_size (d_active d) + est then db_rotate d else (d, [])) as [d1 ev1] eqn:Hrot.
  assert (H1 : InvF d1 /\ (forall q, rec_at d1 q = rec_at d q) /\ d_index d1 = d_index d /\ d_cfg d1 = d_cfg d
               /\ d_total d1 = d_total d /\ d_reclaim d1 = d_reclaim d).
  { destruct (c_fsize (d_cfg d) <? lf_size (d_active d) + est).
    - destruct (db_rotate_spec d d1 ev1 HF Hrot) as (A & B & C & D & _ & E & F). auto 10.
    - injection Hrot as <- <-. auto 10. }
  destruct H1 as (HF1 & Hsame & Hix1 & Hcfg1 & Htot1 & Hrec1).
  destruct (lf_append (io_of d1) (FData (d_active_id d1)) (d_active_id d1) (d_active d1) r) as [[a p0] ev2] eqn:Hla.
  destruct HF1 as [Hact1 Hold1].
  destruct (lf_append_spec _ _ _ _ _ _ _ _ Hact1 Hla) as (Hwfa & Hrecs & Hfid & Hge & Hoff & Hsz & Hpsz & Hnone).
  (* both branches of the sync policy leave the same records *)
  assert (Hfin : exists a' bw, d' = set_counters (set_active d1 (d_active_id d1) a') bw (d_total d1 + p_size p0) (d_reclaim d1)
                               /\ p = p0 /\ lf_recs a' = lf_recs a /\ lf_size a' = lf_size a).
  { destruct ((c_sync (d_cfg d1) =? sync_Always) || _).
    - destruct (h_sync (FData (d_active_id d1)) a) as [a' ev3] eqn:Hs.
      pose proof (h_sync_same (FData (d_active_id d1)) a) as Hss. rewrite Hs in Hss. cbn [fst] in Hss.
      injection Happ as <- <- <-. exists a', 0. repeat split; tauto.
    - injection Happ as <- <- <-. exists a, (d_bytes_write d1 + p_size p0). repeat split; reflexivity. }
  destruct Hfin as (a' & bw & -> & -> & Ha'1 & Ha'2).
  cbn [set_counters set_active d_active d_older d_active_id d_index d_cfg d_total d_reclaim].
  assert (Hrat : forall q, rec_at (set_counters (set_active d1 (d_active_id d1) a') bw (d_total d1 + p_size p0) (d_reclaim d1)) q
                 = if p_fid q =? d_active_id d1 then lf_lookup (lf_recs a) (p_bid q) (p_off q)
                   else rec_at d1 q).
  { intros q. unfold rec_at, file_of. cbn [set_counters set_active d_active d_older d_active_id].
    destruct (p_fid q =? d_active_id d1); [rewrite Ha'1|]; reflexivity. }
  split; [|split; [|split; [|split]]].
  - split; cbn [set_counters set_active d_active d_older d_active_id].
    + intros r1 p1 Hin. rewrite Ha'1 in Hin. rewrite Ha'2. apply (Hwfa r1 p1). exact Hin.
    + exact Hold1.
  - intros q x Hq. rewrite Hrat. rewrite <- Hsame in Hq.
    destruct (p_fid q =? d_active_id d1) eqn:E; [|exact Hq].
    unfold rec_at, file_of in Hq. rewrite E in Hq. rewrite Hrecs.
    apply lookup_after_append; assumption.
  - rewrite Hrat. rewrite Hfid, N.eqb_refl, Hrecs. apply lookup_new. exact Hnone.
  - rewrite <- Hsame. unfold rec_at, file_of. rewrite Hfid, N.eqb_refl. exact Hnone.
  - repeat split; try assumption. lia.
Qed.

(* ---- the abstract map ----------------------------------------------------------------------- *)
Definition R (d : db) (m : amap bytes) : Prop :=
  amap_rel (fun p v => val_at d p = Some v) (d_index d) m.

Lemma val_at_extends d d' p v : extends d d' -> val_at d p = Some v -> val_at d' p = Some v.
Proof. intros He H. unfold val_at in *. destruct (rec_at d p) as [r|] eqn:E; [|discriminate].
  rewrite (He _ _ E). exact H. Qed.

Lemma R_extends d d' m : extends d d' -> d_index d' = d_index d -> R d m -> R d' m.
Proof. intros He Hix HR. unfold R in *. rewrite Hix.
  eapply amap_rel_impl; [|exact HR]. intros p v H. eapply val_at_extends; eassumption. Qed.

(* counters and index setters do not move records *)
Lemma rec_at_add_reclaim d n p : rec_at (add_reclaim d n) p = rec_at d p.
Proof. reflexivity. Qed.
Lemma rec_at_set_index d ix p : rec_at (set_index d ix) p = rec_at d p.
Proof. reflexivity. Qed.

(* ---- Put ---------------------------------------------------------------------------------------- *)
Theorem db_put_spec d m k v d' e evs :
  Inv d -> R d m -> db_put d k v = (d', e, evs) ->
  Inv d' /\
  if len k =? 0 then e = Some EKeyIsEmpty /\ d' = d /\ R d' m
  else e = None /\ R d' (fst (amap_put m k v)).
Proof.
  intros [HF [Hsorted Hres]] HR Hput. unfold db_put in Hput.
  destruct (len k =? 0) eqn:Ek.
  - injection Hput as <- <- <-. split; [split; [exact HF|split; assumption]|auto].
  - destruct (db_append d (mkRec rt_Normal k v 0)) as [[d1 p] ev1] eqn:Happ.
    destruct (db_append_spec _ _ _ _ _ HF Happ) as (HF1 & Hext & Hnew & Hfresh & Hix & _).
    destruct (idx_put (d_index d1) k p) as [ix old] eqn:Hip.
    injection Hput as <- <- <-.
    assert (Hix' : ix = fst (amap_put (d_index d) k p)) by (unfold idx_put in Hip; rewrite Hix in Hip; rewrite Hip; reflexivity).
    split; [split; [exact HF1|split]|split; [reflexivity|]].
    + cbn [add_reclaim set_counters set_index d_index]. rewrite Hix'. apply amap_put_sorted. exact Hsorted.
    + intros k' p' Hin. cbn [add_reclaim set_counters set_index d_index] in Hin. rewrite Hix' in Hin.
      rewrite rec_at_add_reclaim, rec_at_set_index.
      destruct (in_amap_put _ _ _ _ Hin) as [Heq|Hold].
      * injection Heq as -> ->. exists (mkRec rt_Normal k v 0). split; [exact Hnew|split; reflexivity].
      * destruct (Hres _ _ Hold) as (r & Hr & Hk). exists r. split; [apply Hext; exact Hr|exact Hk].
    + unfold R. cbn [add_reclaim set_counters set_index d_index]. rewrite Hix'.
      apply amap_rel_put.
      * eapply amap_rel_impl; [|exact HR]. intros q x Hq. unfold val_at in *.
        rewrite rec_at_add_reclaim, rec_at_set_index.
        destruct (rec_at d q) as [r|] eqn:E; [|discriminate]. rewrite (Hext _ _ E). exact Hq.
      * unfold val_at. rewrite rec_at_add_reclaim, rec_at_set_index, Hnew. reflexivity.
Qed.

(* ---- operations that do not change any record ------------------------------------------------ *)
Definition same_recs (d d' : db) : Prop :=
  (forall q, rec_at d' q = rec_at d q) /\ d_index d' = d_index d.
Lemma same_recs_refl d : same_recs d d. Proof. split; auto. Qed.
Lemma same_recs_trans a b c : same_recs a b -> same_recs b c -> same_recs a c.
Proof. intros [H1 H2] [H3 H4]. split; [intros q; rewrite H3; apply H1|congruence]. Qed.
Lemma Inv_same d d' : Inv d -> InvF d' -> same_recs d d' -> Inv d'.
Proof. intros [_ [Hs Hr]] HF [Hrec Hix]. split; [exact HF|]. split; rewrite Hix; [exact Hs|].
  intros k p Hin. rewrite Hrec. apply Hr. exact Hin. Qed.
Lemma R_same d d' m : same_recs d d' -> R d m -> R d' m.
Proof. intros [Hrec Hix] HR. unfold R in *. rewrite Hix. eapply amap_rel_impl; [|exact HR].
  intros p v H. unfold val_at in *. rewrite Hrec. exact H. Qed.

Lemma amap_del_absent {V} (m : amap V) k : amap_get m k = None -> fst (amap_del m k) = m.
Proof.
  induction m as [|[k0 v0] m IH]; cbn [amap_get amap_del fst]; [reflexivity|].
  destruct (bytes_eqb k k0); [discriminate|]. intros H. specialize (IH H).
  destruct (amap_del m k) as [r o]. cbn [fst] in *. rewrite IH. reflexivity.
Qed.

Lemma R_get d m k : R d m ->
  match idx_get (d_index d) k with
  | Some p => exists v, val_at d p = Some v /\ amap_get m k = Some v
  | None => amap_get m k = None
  end.
Proof.
  intros HR. pose proof (amap_rel_get _ _ _ k HR) as H. unfold idx_get.
  destruct (amap_get (d_index d) k) as [p|]; destruct (amap_get m k) as [v|]; try contradiction; eauto.
Qed.

(* getValueByPosition *)
Lemma db_read_spec d p v :
  InvF d -> val_at d p = Some v ->
  exists d' evs, db_read d p = (d', inl v, evs) /\ InvF d' /\ same_recs d d' /\ d_cfg d' = d_cfg d.
Proof.
  intros [Hact Hold] Hv. unfold val_at, rec_at, file_of in Hv. unfold db_read.
  destruct (p_fid p =? d_active_id d) eqn:E.
  - set (sp := read_span (d_active d) p).
    pose proof (h_read_same (io_of d) (FData (d_active_id d)) (d_active d) (fst sp) (snd sp)) as [Hr Hs].
    destruct (h_read (io_of d) (FData (d_active_id d)) (d_active d) (fst sp) (snd sp)) as [a evs]. cbn [fst] in *.
    rewrite Hr. destruct (lf_lookup (lf_recs (d_active d)) (p_bid p) (p_off p)) as [r|] eqn:El; [|discriminate].
    destruct (r_type r =? rt_Deleted); [discriminate|]. injection Hv as <-. eexists _, _. split; [reflexivity|]. split; [|split; [split|]]; cbn [set_active d_active d_older d_active_id d_index d_cfg]; auto.
    + split; [|exact Hold]. intros r1 p1 Hin. cbn [set_active d_active] in *. rewrite Hr in Hin. rewrite Hs. apply (Hact r1 p1). exact Hin.
    + intros q. unfold rec_at, file_of. cbn [set_active d_active d_older d_active_id].
      destruct (p_fid q =? d_active_id d); [rewrite Hr|]; reflexivity.
  - destruct (older_get (d_older d) (p_fid p)) as [f|] eqn:Eo; [|discriminate].
    set (sp := read_span f p).
    pose proof (h_read_same (io_of d) (FData (p_fid p)) f (fst sp) (snd sp)) as [Hr Hs].
    destruct (h_read (io_of d) (FData (p_fid p)) f (fst sp) (snd sp)) as [f' evs]. cbn [fst] in *.
    rewrite Hr. destruct (lf_lookup (lf_recs f) (p_bid p) (p_off p)) as [r|] eqn:El; [|discriminate].
    destruct (r_type r =? rt_Deleted); [discriminate|]. injection Hv as <-. eexists _, _. split; [reflexivity|].
    destruct (Hold _ _ Eo) as [Hwf Hlt].
    split; [|split; [split|]]; cbn [set_older d_active d_older d_active_id d_index d_cfg]; auto.
    + split; [exact Hact|]. intros id g Hg. cbn [set_older d_older d_active_id] in *. rewrite older_get_set in Hg.
      destruct (id =? p_fid p) eqn:E2.
      * injection Hg as <-. assert (id = p_fid p) by lia. subst id. split; [|exact Hlt].
        intros r1 p1 Hin. rewrite Hr in Hin. rewrite Hs. apply (Hwf r1 p1). exact Hin.
      * apply Hold. exact Hg.
    + intros q. unfold rec_at, file_of. cbn [set_older d_active d_older d_active_id].
      destruct (p_fid q =? d_active_id d); [reflexivity|]. rewrite older_get_set.
      destruct (p_fid q =? p_fid p) eqn:E2; [|reflexivity].
      assert (p_fid q = p_fid p) by lia. rewrite H, Eo, Hr. reflexivity.
Qed.

(* Get *)
Theorem db_get_spec d m k :
  Inv d -> R d m ->
  exists d' evs, db_get d k = (d', s_get m k, evs) /\ Inv d' /\ R d' m /\ d_cfg d' = d_cfg d.
Proof.
  intros HI HR. unfold db_get, s_get. destruct (len k =? 0).
  - eexists _, _. split; [reflexivity|auto].
  - pose proof (R_get d m k HR) as Hg.
    destruct (idx_get (d_index d) k) as [p|].
    + destruct Hg as (v & Hv & Hm). rewrite Hm.
      destruct (db_read_spec d p v (proj1 HI) Hv) as (d' & evs & Hrd & HF' & Hsame & Hcfg).
      exists d', evs. split; [exact Hrd|]. split; [eapply Inv_same; eassumption|].
      split; [eapply R_same; eassumption|exact Hcfg].
    + rewrite Hg. eexists _, _. split; [reflexivity|auto].
Qed.

(* Delete *)
Theorem db_delete_spec d m k d' e evs :
  Inv d -> R d m -> db_delete d k = (d', e, evs) ->
  Inv d' /\ e = snd (s_del m k) /\ R d' (fst (s_del m k)) /\ d_cfg d' = d_cfg d.
Proof.
  intros [HF [Hsorted Hres]] HR Hdel. unfold db_delete in Hdel. unfold s_del.
  destruct (len k =? 0) eqn:Ek.
  - injection Hdel as <- <- <-. cbn [fst snd].
    split; [split; [exact HF|split; assumption]|]. split; [reflexivity|split; [exact HR|reflexivity]].
  - pose proof (R_get d m k HR) as Hg. cbn [fst snd].
    destruct (idx_get (d_index d) k) as [p0|] eqn:Eg.
    + destruct (db_append d (mkRec rt_Deleted k [] 0)) as [[d1 p] ev1] eqn:Happ.
      destruct (db_append_spec _ _ _ _ _ HF Happ) as (HF1 & Hext & Hnew & Hfresh & Hix & Hcfg & _).
      cbn [add_reclaim set_counters d_index] in Hdel.
      destruct (idx_del (d_index d1) k) as [ix old] eqn:Hid.
      assert (Hix' : ix = fst (amap_del (d_index d) k) /\ old = Some p0).
      { unfold idx_del in Hid. rewrite Hix in Hid. split.
        - rewrite Hid. reflexivity.
        - pose proof (amap_del_old (d_index d) k) as Ho. rewrite Hid in Ho. cbn [snd] in Ho.
          rewrite Ho. exact Eg. }
      destruct Hix' as [-> ->]. injection Hdel as <- <- <-.
      split; [split; [exact HF1|split]|split; [reflexivity|split]].
      * cbn [add_reclaim set_counters set_index d_index]. apply amap_del_sorted. exact Hsorted.
      * intros k' p' Hin. cbn [add_reclaim set_counters set_index d_index] in Hin.
        apply in_amap_del in Hin. destruct (Hres _ _ Hin) as (r & Hr & Hk).
        exists r. split; [|exact Hk]. apply Hext in Hr. exact Hr.
      * unfold R. cbn [add_reclaim set_counters set_index d_index]. apply amap_rel_del.
        eapply amap_rel_impl; [|exact HR]. intros q x Hq. unfold val_at in *.
        change (rec_at (add_reclaim (set_index (add_reclaim d1 (p_size p)) (fst (amap_del (d_index d) k))) (p_size p0)) q)
          with (rec_at d1 q).
        destruct (rec_at d q) as [r|] eqn:E; [|discriminate]. rewrite (Hext _ _ E). exact Hq.
      * exact Hcfg.
    + injection Hdel as <- <- <-. rewrite (amap_del_absent m k Hg).
      split; [split; [exact HF|split; assumption]|]. split; [reflexivity|split; [exact HR|reflexivity]].
Qed.

(* ListKeys, Stat.KeyNum *)
Lemma db_list_keys_spec d m : R d m -> db_list_keys d = map fst m.
Proof. intros HR. unfold db_list_keys. apply (amap_rel_keys _ _ _ HR). Qed.
Lemma db_keynum_spec d m : R d m -> len (d_index d) = len m.
Proof. intros HR. apply (amap_rel_len _ _ _ HR). Qed.

(* Fold *)
Lemma db_fold_aux_spec : forall ix d m,
  InvF d -> amap_rel (fun p v => val_at d p = Some v) ix m ->
  exists d' evs, db_fold_aux d ix = (d', inl m, evs) /\ InvF d' /\ same_recs d d' /\ d_cfg d' = d_cfg d.
Proof.
  induction ix as [|[k p] ix IH]; intros d m HF HR; inversion HR as [|x y ix' m' [Hk Hv] Hrest]; subst.
  - eexists _, _. split; [reflexivity|]. split; [exact HF|split; [apply same_recs_refl|reflexivity]].
  - destruct y as [k' v]. cbn [fst snd] in *. subst k'. cbn [db_fold_aux].
    destruct (db_read_spec d p v HF Hv) as (d1 & ev1 & Hrd & HF1 & Hs1 & Hc1). rewrite Hrd.
    assert (HR1 : amap_rel (fun p v => val_at d1 p = Some v) ix m').
    { eapply amap_rel_impl; [|exact Hrest]. intros q x Hq. unfold val_at in *. rewrite (proj1 Hs1). exact Hq. }
    destruct (IH d1 m' HF1 HR1) as (d2 & ev2 & Hf & HF2 & Hs2 & Hc2). rewrite Hf.
    eexists _, _. split; [reflexivity|]. split; [exact HF2|].
    split; [eapply same_recs_trans; eassumption|congruence].
Qed.
Theorem db_fold_spec d m :
  Inv d -> R d m ->
  exists d' evs, db_fold d = (d', inl m, evs) /\ Inv d' /\ R d' m /\ d_cfg d' = d_cfg d.
Proof.
  intros HI HR. destruct (db_fold_aux_spec (d_index d) d m (proj1 HI) HR) as (d' & evs & Hf & HF' & Hs & Hc).
  exists d', evs. split; [exact Hf|]. split; [eapply Inv_same; eassumption|].
  split; [eapply R_same; eassumption|exact Hc].
Qed.

(* Fold stopped by its callback after n items: exactly the first n pairs of the mapping, in key order *)
Lemma Forall2_firstn {A B} (P : A -> B -> Prop) : forall n l1 l2, Forall2 P l1 l2 -> Forall2 P (firstn n l1) (firstn n l2).
Proof.
  induction n as [|n IH]; intros l1 l2 H; cbn [firstn]; [constructor|].
  destruct H as [|x y l1 l2 Hxy Hrest]; [constructor|]. constructor; [exact Hxy|apply IH; exact Hrest].
Qed.
Theorem db_fold_n_spec d m n :
  Inv d -> R d m ->
  exists d' evs, db_fold_n d n = (d', inl (firstn n m), evs) /\ Inv d' /\ R d' m /\ d_cfg d' = d_cfg d.
Proof.
  intros HI HR. unfold db_fold_n.
  assert (HRn : amap_rel (fun p v => val_at d p = Some v) (firstn n (d_index d)) (firstn n m)).
  { unfold R, amap_rel in *. apply Forall2_firstn. exact HR. }
  destruct (db_fold_aux_spec (firstn n (d_index d)) d (firstn n m) (proj1 HI) HRn) as (d' & evs & Hf & HF' & Hs & Hc).
  exists d', evs. split; [exact Hf|]. split; [eapply Inv_same; eassumption|].
  split; [eapply R_same; eassumption|exact Hc].
Qed.

(* Sync *)
Lemma db_sync_spec d m d' evs : Inv d -> R d m -> db_sync d = (d', evs) ->
  Inv d' /\ R d' m /\ d_cfg d' = d_cfg d.
Proof.
  intros HI HR Hs. unfold db_sync in Hs.
  destruct (h_sync (FData (d_active_id d)) (d_active d)) as [a ev] eqn:E.
  pose proof (h_sync_same (FData (d_active_id d)) (d_active d)) as [Hr Hsz]. rewrite E in Hr, Hsz. cbn [fst] in *.
  injection Hs as <- <-.
  assert (Hsame : same_recs d (set_active d (d_active_id d) a)).
  { split; [|reflexivity]. intros q. unfold rec_at, file_of. cbn [set_active d_active d_older d_active_id].
    destruct (p_fid q =? d_active_id d); [rewrite Hr|]; reflexivity. }
  assert (HF' : InvF (set_active d (d_active_id d) a)).
  { destruct HI as [[Hact Hold] _]. split; cbn [set_active d_active d_older d_active_id]; [|exact Hold].
    intros r p Hin. rewrite Hr in Hin. rewrite Hsz. apply (Hact r p). exact Hin. }
  split; [eapply Inv_same; eassumption|]. split; [eapply R_same; eassumption|reflexivity].
Qed.
