(* FileShift.v — the writer does not depend on how many whole blocks precede it: a data file that
   begins with k blocks of arbitrary content behaves, for every history of writes, flushes and
   reopens, like the same history at offset 0 with every block id shifted by k.  (k is an
   unbounded N: 131072 blocks = 4 GiB is one instance.) *)
From Coq Require Import ZArith Lia ZifyN ZifyNat ZifyBool List.
From KV Require Import Bytes GenConsts Chunk BytesLemmas ChunkProofs.
Import ListNotations.
Open Scope N_scope.
Ltac Zify.zify_post_hook ::= Z.div_mod_to_equations.

Definition shift_pos (k : N) (p : pos) : pos := mkPos (p_fid p) (p_bid p + k) (p_off p) (p_size p).
Definition shift_df (k : N) (pre : bytes) (f : dfile) : dfile :=
  mkDf (df_id f) (pre ++ df_bytes f) (df_bid f + k) (df_bsz f) (df_staged f).

Lemma frame_shift fid bid bsz n k :
  frame fid (bid + k) bsz n =
    let '(p, b, s) := frame fid bid bsz n in (shift_pos k p, b + k, s).
Proof.
  unfold frame, shift_pos. cbn [p_fid p_bid p_off p_size].
  destruct (pad_len bsz =? 0); f_equal; try f_equal; try lia; f_equal; lia.
Qed.

Section WithCrc.
Variable crc : bytes -> N.

Lemma df_write_shift k pre f d :
  df_write crc (shift_df k pre f) d =
    let '(f', p) := df_write crc f d in (shift_df k pre f', shift_pos k p).
Proof.
  unfold df_write, shift_df. cbn [df_id df_bid df_bsz df_bytes df_staged].
  rewrite frame_shift. destruct (frame (df_id f) (df_bid f) (df_bsz f) (len d)) as [[p b] s].
  cbn [df_id df_bid df_bsz df_bytes df_staged]. rewrite app_assoc. reflexivity.
Qed.

Lemma write_all_buf_shift k fid recs : forall bid bsz,
  write_all_buf crc fid (bid + k) bsz recs =
    let '(bs, ps, b, s) := write_all_buf crc fid bid bsz recs in (bs, map (shift_pos k) ps, b + k, s).
Proof.
  induction recs as [|d r IH]; intros bid bsz; cbn [write_all_buf map]; [reflexivity|].
  rewrite frame_shift. destruct (frame fid bid bsz (len d)) as [[p b] s].
  rewrite IH. destruct (write_all_buf crc fid b s r) as [[[bs ps] b2] s2]. reflexivity.
Qed.

Lemma df_flush_shift k pre f :
  df_flush crc (shift_df k pre f) =
    let '(f', ps) := df_flush crc f in (shift_df k pre f', map (shift_pos k) ps).
Proof.
  unfold df_flush, shift_df. cbn [df_id df_bid df_bsz df_bytes df_staged].
  rewrite write_all_buf_shift.
  destruct (write_all_buf crc (df_id f) (df_bid f) (df_bsz f) (df_staged f)) as [[[bs ps] b] s].
  cbn [df_id df_bid df_bsz df_bytes df_staged]. rewrite app_assoc. reflexivity.
Qed.

Lemma df_open_shift k pre id content : len pre = k * blockSize ->
  df_open id (pre ++ content) = shift_df k pre (df_open id content).
Proof.
  intros H. unfold df_open, shift_df. cbn [df_id df_bid df_bsz df_bytes df_staged].
  rewrite len_app, H. pose proof blockSize_val as Hb.
  f_equal.
  - rewrite N.add_comm, N.div_add by lia. lia.
  - rewrite N.add_comm, N.mod_add by lia. reflexivity.
Qed.

Definition shift_out (k : N) (out : list (bytes * pos)) : list (bytes * pos) :=
  map (fun dp => (fst dp, shift_pos k (snd dp))) out.

Lemma combine_shift k (ds : list bytes) : forall ps,
  combine ds (map (shift_pos k) ps) = shift_out k (combine ds ps).
Proof.
  induction ds as [|d ds IH]; intros [|p ps]; cbn; try reflexivity. rewrite IH. reflexivity.
Qed.

Theorem df_run_shift k pre : len pre = k * blockSize -> forall ops f,
  df_run crc (shift_df k pre f) ops =
    (shift_df k pre (fst (df_run crc f ops)), shift_out k (snd (df_run crc f ops))).
Proof.
  intros Hpre. induction ops as [|o ops IH]; intros f; [reflexivity|].
  destruct o as [d|d| | |]; cbn [df_run].
  - rewrite df_write_shift. destruct (df_write crc f d) as [f1 p].
    rewrite IH. destruct (df_run crc f1 ops) as [f2 out]. reflexivity.
  - change (df_stage (shift_df k pre f) d) with (shift_df k pre (df_stage f d)). apply IH.
  - rewrite df_flush_shift. cbn [shift_df df_staged]. destruct (df_flush crc f) as [f1 ps].
    rewrite IH. destruct (df_run crc f1 ops) as [f2 out]. cbn [fst snd].
    unfold shift_out at 2. rewrite map_app. rewrite combine_shift. reflexivity.
  - cbn [shift_df df_id df_bytes]. rewrite (df_open_shift k pre _ _ Hpre). apply IH.
  - change (df_refuse (shift_df k pre f)) with (shift_df k pre (df_refuse f)). apply IH.
Qed.

(* a file found with k whole blocks of content: everything appended to it *)
Corollary df_run_far k pre fid ops : len pre = k * blockSize ->
  df_run crc (df_open fid pre) ops =
    (shift_df k pre (fst (df_run crc (df_open fid []) ops)),
     shift_out k (snd (df_run crc (df_open fid []) ops))).
Proof.
  intros H. rewrite <- (app_nil_r pre) at 1. rewrite (df_open_shift k pre fid [] H).
  apply df_run_shift, H.
Qed.

End WithCrc.
