(* EngineAcc.v — space accounting: totalSize = reclaimSize + bytes of the live records, at every
   step of every script, live and after restart (C17). *)
From Coq Require Import ZArith Lia ZifyN ZifyNat ZifyBool.
From KV Require Import Bytes GenConsts Chunk Record Engine Script BytesLemmas AMapLemmas
  EngineFiles EngineInv EngineBatch EngineRefine EngineLog EngineRecover.
Open Scope N_scope.

Fixpoint live_sum (ix : index) : N :=
  match ix with [] => 0 | (_, p) :: r => p_size p + live_sum r end.

(* DiskSize = ReclaimableSize + bytes occupied by the live (indexed) records *)
Definition Acc (d : db) : Prop := d_total d = d_reclaim d + live_sum (d_index d).

Lemma live_sum_put ix k p :
  live_sum (fst (amap_put ix k p)) + opt_size (snd (amap_put ix k p)) = live_sum ix + p_size p.
Proof.
  induction ix as [|[k0 p0] ix IH]; cbn [amap_put fst snd live_sum opt_size]; [lia|].
  destruct (bytes_eqb k k0); [cbn [fst snd live_sum opt_size]; lia|].
  destruct (bytes_ltb k k0); [cbn [fst snd live_sum opt_size]; lia|].
  destruct (amap_put ix k p) as [r o]. cbn [fst snd live_sum] in *. lia.
Qed.
Lemma live_sum_del ix k :
  live_sum (fst (amap_del ix k)) + opt_size (snd (amap_del ix k)) = live_sum ix.
Proof.
  induction ix as [|[k0 p0] ix IH]; cbn [amap_del fst snd live_sum opt_size]; [lia|].
  destruct (bytes_eqb k k0); [cbn [fst snd live_sum opt_size]; lia|].
  destruct (amap_del ix k) as [r o]. cbn [fst snd live_sum] in *. lia.
Qed.

(* one index update with its accounting (flushStaged / updateIndex) *)
Lemma index_step_acc d r p : Acc d -> Acc (index_step d r p).
Proof.
  unfold Acc, index_step, idx_del, idx_put. intros H.
  destruct (r_type r =? rt_Deleted).
  - pose proof (live_sum_del (d_index d) (r_key r)) as Hl.
    destruct (amap_del (d_index d) (r_key r)) as [ix old]. cbn [fst snd] in Hl.
    cbn [set_counters add_reclaim set_index d_total d_reclaim d_index d_bytes_write]. lia.
  - pose proof (live_sum_put (d_index d) (r_key r) p) as Hl.
    destruct (amap_put (d_index d) (r_key r) p) as [ix old]. cbn [fst snd] in Hl.
    cbn [set_counters add_reclaim set_index d_total d_reclaim d_index d_bytes_write]. lia.
Qed.
Lemma apply_staged_acc : forall l d, Acc d -> Acc (apply_staged d l).
Proof. induction l as [|[r p] l IH]; intros d H; [exact H|]. rewrite apply_staged_cons. apply IH, index_step_acc, H. Qed.

Definition same_counters (d d' : db) : Prop :=
  d_total d' = d_total d /\ d_reclaim d' = d_reclaim d /\ d_index d' = d_index d.
Lemma Acc_same d d' : same_counters d d' -> Acc d -> Acc d'.
Proof. intros (H1 & H2 & H3) H. unfold Acc in *. rewrite H1, H2, H3. exact H. Qed.
Lemma same_counters_refl d : same_counters d d. Proof. repeat split. Qed.
Lemma same_counters_trans a b c : same_counters a b -> same_counters b c -> same_counters a c.
Proof. intros (A1 & A2 & A3) (B1 & B2 & B3). repeat split; congruence. Qed.

Lemma db_rotate_counters d d' evs : db_rotate d = (d', evs) -> same_counters d d'.
Proof. unfold db_rotate. destruct (h_sync _ _) as [a e1]. destruct (h_open _ _ _ _) as [n e2].
  intros [= <- _]. repeat split. Qed.

Lemma db_append_counters d r d' p evs : db_append d r = (d', p, evs) ->
  d_total d' = d_total d + p_size p /\ d_reclaim d' = d_reclaim d /\ d_index d' = d_index d.
Proof.
  unfold db_append. intros H.
  destruct (if c_fsize (d_cfg d) <? _ then db_rotate d else (d, [])) as [d1 ev1] eqn:Hrot.
  assert (Hs : same_counters d d1).
  { destruct (c_fsize (d_cfg d) <? _); [eapply db_rotate_counters; eassumption|injection Hrot as <- _; apply same_counters_refl]. }
  destruct Hs as (S1 & S2 & S3).
  destruct (lf_append _ _ _ _ _) as [[a p0] ev2].
  destruct ((c_sync (d_cfg d1) =? sync_Always) || _).
  - destruct (h_sync _ a) as [a' ev3]. injection H as <- <- _. cbn. rewrite S1, S2, S3. auto.
  - injection H as <- <- _. cbn. rewrite S1, S2, S3. auto.
Qed.

Lemma db_put_acc d k v d' e evs : Acc d -> db_put d k v = (d', e, evs) -> Acc d'.
Proof.
  intros HA H. unfold db_put in H. destruct (len k =? 0); [injection H as <- _ _; exact HA|].
  destruct (db_append d (mkRec rt_Normal k v 0)) as [[d1 p] ev1] eqn:Happ.
  destruct (db_append_counters _ _ _ _ _ Happ) as (C1 & C2 & C3).
  unfold idx_put in H. pose proof (live_sum_put (d_index d1) k p) as Hl.
  destruct (amap_put (d_index d1) k p) as [ix old]. cbn [fst snd] in Hl. injection H as <- _ _.
  unfold Acc in *. cbn [add_reclaim set_counters set_index d_total d_reclaim d_index]. rewrite C3 in Hl. lia.
Qed.
Lemma db_delete_acc d k d' e evs : Acc d -> db_delete d k = (d', e, evs) -> Acc d'.
Proof.
  intros HA H. unfold db_delete in H. destruct (len k =? 0); [injection H as <- _ _; exact HA|].
  destruct (idx_get (d_index d) k) as [p0|]; [|injection H as <- _ _; exact HA].
  destruct (db_append d (mkRec rt_Deleted k [] 0)) as [[d1 p] ev1] eqn:Happ.
  destruct (db_append_counters _ _ _ _ _ Happ) as (C1 & C2 & C3).
  cbn [add_reclaim set_counters d_index] in H. unfold idx_del in H.
  pose proof (live_sum_del (d_index d1) k) as Hl.
  destruct (amap_del (d_index d1) k) as [ix old]. cbn [fst snd] in Hl. rewrite C3 in Hl.
  unfold Acc in *. destruct old as [o|]; injection H as <- _ _;
    cbn [add_reclaim set_counters set_index d_total d_reclaim d_index opt_size] in *; lia.
Qed.

Lemma db_read_counters d p d' r evs : db_read d p = (d', r, evs) -> same_counters d d'.
Proof.
  unfold db_read. destruct (p_fid p =? d_active_id d).
  - destruct (h_read _ _ _ _ _) as [a ev]. destruct (lf_lookup _ _ _); intros [= <- _ _]; repeat split.
  - destruct (older_get _ _) as [f|]; [|intros [= <- _ _]; repeat split].
    destruct (h_read _ _ _ _ _) as [f' ev]. destruct (lf_lookup _ _ _); intros [= <- _ _]; repeat split.
Qed.
Lemma db_get_counters d k d' r evs : db_get d k = (d', r, evs) -> same_counters d d'.
Proof. unfold db_get. destruct (len k =? 0); [intros [= <- _ _]; repeat split|].
  destruct (idx_get _ _); [apply db_read_counters|intros [= <- _ _]; repeat split]. Qed.
Lemma db_fold_aux_counters : forall ix d d' r evs, db_fold_aux d ix = (d', r, evs) -> same_counters d d'.
Proof.
  induction ix as [|[k p] ix IH]; intros d d' r evs H; cbn [db_fold_aux] in H; [injection H as <- _ _; repeat split|].
  destruct (db_read d p) as [[d1 v] ev1] eqn:Hrd. pose proof (db_read_counters _ _ _ _ _ Hrd) as Hs1.
  destruct v as [val|e]; [|injection H as <- _ _; exact Hs1].
  destruct (db_fold_aux d1 ix) as [[d2 rest] ev2] eqn:Hf. pose proof (IH _ _ _ _ Hf) as Hs2.
  destruct rest; injection H as <- _ _; eapply same_counters_trans; eassumption.
Qed.

Lemma batch_flush_acc d b d' b' evs : Acc d -> batch_flush d b = (d', b', evs) -> Acc d'.
Proof.
  intros HA H. unfold batch_flush in H.
  destruct (if (0 <? lf_size (d_active d)) && _ then db_rotate d else (d, [])) as [d1 ev1] eqn:Hrot.
  assert (Hs : same_counters d d1).
  { destruct ((0 <? lf_size (d_active d)) && _); [eapply db_rotate_counters; eassumption|injection Hrot as <- _; apply same_counters_refl]. }
  destruct (lf_append_all _ _ _ _ _) as [[a ps] ev2].
  destruct (if b_sync b then h_sync _ a else (a, [])) as [a' ev3].
  injection H as <- _ _. apply apply_staged_acc. eapply Acc_same; [|exact HA].
  destruct Hs as (S1 & S2 & S3). repeat split; cbn; assumption.
Qed.
Lemma batch_flush_rotate_acc d b d' b' evs : Acc d -> batch_flush_rotate d b = (d', b', evs) -> Acc d'.
Proof.
  intros HA H. unfold batch_flush_rotate in H.
  destruct (batch_flush d b) as [[d1 b1] ev1] eqn:Hfl. destruct (db_rotate d1) as [d2 ev2] eqn:Hrot.
  injection H as <- _ _. eapply Acc_same; [eapply db_rotate_counters; eassumption|]. eapply batch_flush_acc; eassumption.
Qed.
Lemma batch_put_acc d b k v d' b' e evs : Acc d -> batch_put d b k v = (d', b', e, evs) -> Acc d'.
Proof.
  intros HA H. unfold batch_put in H. destruct (len k =? 0); [injection H as <- _ _ _; exact HA|].
  destruct (b_committed b); [injection H as <- _ _ _; exact HA|].
  destruct (staged_find (b_staged b) k).
  - destruct (c_fsize (d_cfg d) <? _); [|injection H as <- _ _ _; exact HA].
    destruct (batch_flush_rotate d b) as [[d1 b1] ev1] eqn:Hfl. injection H as <- _ _ _. eapply batch_flush_rotate_acc; eassumption.
  - destruct (c_fsize (d_cfg d) <? _); [|injection H as <- _ _ _; exact HA].
    destruct (batch_flush_rotate d b) as [[d1 b1] ev1] eqn:Hfl. injection H as <- _ _ _. eapply batch_flush_rotate_acc; eassumption.
Qed.
Lemma batch_delete_acc d b k d' b' e evs : Acc d -> batch_delete d b k = (d', b', e, evs) -> Acc d'.
Proof.
  intros HA H. unfold batch_delete in H. destruct (len k =? 0); [injection H as <- _ _ _; exact HA|].
  destruct (b_committed b); [injection H as <- _ _ _; exact HA|].
  destruct (staged_find (b_staged b) k); [injection H as <- _ _ _; exact HA|].
  destruct (idx_get (d_index d) k); [|injection H as <- _ _ _; exact HA].
  destruct (c_fsize (d_cfg d) <? _); [|injection H as <- _ _ _; exact HA].
  destruct (batch_flush_rotate d b) as [[d1 b1] ev1] eqn:Hfl. injection H as <- _ _ _. eapply batch_flush_rotate_acc; eassumption.
Qed.
Lemma batch_get_acc d b k d' r evs : Acc d -> batch_get d b k = (d', r, evs) -> Acc d'.
Proof.
  intros HA H. unfold batch_get in H. destruct (len k =? 0); [injection H as <- _ _; exact HA|].
  destruct (b_committed b); [injection H as <- _ _; exact HA|].
  destruct (staged_find (b_staged b) k) as [r0|]; [destruct (r_type r0 =? rt_Deleted); injection H as <- _ _; exact HA|].
  destruct (idx_get (d_index d) k); [|injection H as <- _ _; exact HA].
  eapply Acc_same; [eapply db_read_counters; eassumption|exact HA].
Qed.
Lemma batch_commit_acc d b d' b' e evs : Acc d -> batch_commit d b = (d', b', e, evs) -> Acc d'.
Proof.
  intros HA H. unfold batch_commit in H. destruct (b_committed b); [injection H as <- _ _ _; exact HA|].
  destruct (b_staged b) as [|r0 rs]; [injection H as <- _ _ _; exact HA|].
  destruct (batch_flush d _) as [[d1 b1] ev1] eqn:Hfl.
  destruct (lf_append _ _ _ _ _) as [[a p] ev2]. destruct (if b_sync b then h_sync _ a else (a, [])) as [a' ev3].
  injection H as <- _ _ _. pose proof (batch_flush_acc _ _ _ _ _ HA Hfl) as HA1. exact HA1.
Qed.
Lemma run_bops_acc : forall bops d b d' b' rs evs, Acc d -> run_bops d b bops = (d', b', rs, evs) -> Acc d'.
Proof.
  induction bops as [|o bops IH]; intros d b d' b' rs evs HA H; cbn [run_bops] in H; [injection H as <- _ _ _; exact HA|].
  destruct o as [k v|k|k].
  - destruct (batch_put d b k v) as [[[d1 b1] e] ev1] eqn:Hp. destruct (run_bops d1 b1 bops) as [[[d2 b2] rs2] ev2] eqn:Hr.
    injection H as <- _ _ _. eapply IH; [|exact Hr]. eapply batch_put_acc; eassumption.
  - destruct (batch_delete d b k) as [[[d1 b1] e] ev1] eqn:Hp. destruct (run_bops d1 b1 bops) as [[[d2 b2] rs2] ev2] eqn:Hr.
    injection H as <- _ _ _. eapply IH; [|exact Hr]. eapply batch_delete_acc; eassumption.
  - destruct (batch_get d b k) as [[d1 v] ev1] eqn:Hp. destruct (run_bops d1 b bops) as [[[d2 b2] rs2] ev2] eqn:Hr.
    injection H as <- _ _ _. eapply IH; [|exact Hr]. eapply batch_get_acc; eassumption.
Qed.

Lemma merge_files_counters c : forall order d nm m d' res evs,
  merge_files c d order nm m = (d', res, evs) -> same_counters d d'.
Proof.
  induction order as [|fid order IH]; intros d nm m d' res evs H; cbn [merge_files] in H; [injection H as <- _ _; repeat split|].
  destruct (older_get (d_older d) fid) as [f|]; [|eapply IH; eassumption].
  destruct (scan_touch _ _ f) as [f' ev0].
  destruct (merge_file _ _ _ _ _ _) as [res1 ev1]. destruct res1 as [m'|e m'].
  - destruct (merge_files c _ order nm m') as [[d2 res2] ev2] eqn:Hr. injection H as <- _ _.
    eapply same_counters_trans; [|eapply IH; exact Hr]. repeat split.
  - injection H as <- _ _. repeat split.
Qed.
Lemma db_merge_acc d k order d' k' e evs : Acc d -> db_merge d k order = (d', k', e, evs) -> Acc d'.
Proof.
  intros HA H. unfold db_merge in H. destruct (db_rotate d) as [d1 ev1] eqn:Hrot.
  pose proof (db_rotate_counters _ _ _ Hrot) as Hs1.
  destruct (h_open _ _ _ _) as [a0 ev3]. destruct (hf_open_new _) as [h0 ev4].
  destruct (merge_files _ d1 order _ _) as [[d2 res] ev5] eqn:Hmf.
  pose proof (merge_files_counters _ _ _ _ _ _ _ _ Hmf) as Hs2.
  pose proof (Acc_same d d2 (same_counters_trans _ _ _ Hs1 Hs2) HA) as HA2.
  destruct res as [ms|er ms].
  - destruct (hf_close _ _) as [h1 ev6]. destruct (h_close _ _ _) as [a1 ev7]. destruct (ms_close_older _ _) as [o1 ev8].
    unfold db_sync in H. destruct (h_sync _ _) as [a ev]. injection H as <- _ _ _. exact HA2.
  - injection H as <- _ _ _. exact HA2.
Qed.

(* recovery starts from zero and replays with the same accounting *)
Lemma replay_recs_acc : forall rps d te, Acc d -> Acc (fst (replay_recs d te rps)).
Proof.
  induction rps as [|[r p] rps IH]; intros d te HA; cbn [replay_recs fst]; [exact HA|].
  destruct (r_batch r =? 0).
  - rewrite update_index_eq. apply IH, index_step_acc, HA.
  - destruct (r_type r =? rt_BatchFinished); [|apply IH, HA].
    rewrite fold_update_index. apply IH, apply_staged_acc, HA.
Qed.
Lemma replay_files_acc : forall files d te from, Acc d -> Acc (fst (replay_files d te files from)).
Proof.
  induction files as [|[id f] files IH]; intros d te from HA; cbn [replay_files fst]; [exact HA|].
  destruct (id <? from); [apply IH, HA|].
  pose proof (replay_recs_acc (lf_recs f) d te HA) as H1.
  destruct (replay_recs d te (lf_recs f)) as [d1 t1]. apply IH. exact H1.
Qed.

Lemma db_open_acc c k d k' evs : k_merge k = None -> db_open c k = (OpenOk d k', evs) -> Acc d.
Proof.
  intros Hnm H. unfold db_open, load_merge_files in H. rewrite Hnm in H.
  destruct (open_all (c_io c) (k_data k)) as [files ev2].
  change (0 <? 0) with false in H. cbn -[h_open db_rotate replay_files split_last] in H.
  destruct (split_last files) as [[older [aid af]]|].
  - pose proof (replay_files_acc files (mkDb c aid af older [] 0 0 0) [] 0) as HA.
    destruct (replay_files (mkDb c aid af older [] 0 0 0) [] files 0) as [d3 t3]. cbn [fst] in HA.
    specialize (HA eq_refl).
    destruct ((0 <=? aid) && lf_torn af).
    + destruct (db_rotate d3) as [d4 ev5] eqn:Hrot. injection H as <- _ _.
      eapply Acc_same; [eapply db_rotate_counters; eassumption|exact HA].
    + injection H as <- _ _. exact HA.
  - destruct (h_open (c_io c) (FData 0) false lf_empty) as [n ev].
    pose proof (replay_files_acc files (mkDb c 0 n [] [] 0 0 0) [] 0) as HA.
    destruct (replay_files (mkDb c 0 n [] [] 0 0 0) [] files 0) as [d3 t3]. cbn [fst andb] in *.
    injection H as <- _ _. apply HA. reflexivity.
Qed.

(* ---- every step of every script ----------------------------------------------------------------------- *)
Theorem step_acc d k o d' k' r evs :
  Acc d -> k_merge k = None -> op_ok o -> step (d, k) o = ((d', k'), r, evs) -> Acc d' /\ k_merge k' = None.
Proof.
  intros HA Hnm Hok H. destruct o as [key v|key|key| | | | |sync id bops|order|c]; cbn [step] in H.
  - destruct (db_put d key v) as [[d1 e] ev1] eqn:Hp. injection H as <- <- _ _. split; [eapply db_put_acc; eassumption|exact Hnm].
  - destruct (db_get d key) as [[d1 v] ev1] eqn:Hg. injection H as <- <- _ _.
    split; [eapply Acc_same; [eapply db_get_counters; eassumption|exact HA]|exact Hnm].
  - destruct (db_delete d key) as [[d1 e] ev1] eqn:Hp. injection H as <- <- _ _. split; [eapply db_delete_acc; eassumption|exact Hnm].
  - injection H as <- <- _ _. auto.
  - destruct (db_fold d) as [[d1 rr] ev1] eqn:Hf. injection H as <- <- _ _.
    split; [eapply Acc_same; [eapply db_fold_aux_counters; exact Hf|exact HA]|exact Hnm].
  - unfold db_stat in H. injection H as <- <- _ _. auto.
  - unfold db_sync in H. destruct (h_sync _ _) as [a ev]. injection H as <- <- _ _. auto.
  - destruct (run_bops d (new_batch sync id) bops) as [[[d1 b1] rs] ev1] eqn:Hr.
    destruct (batch_commit d1 b1) as [[[d2 b2] e] ev2] eqn:Hc. injection H as <- <- _ _.
    split; [eapply batch_commit_acc; [eapply run_bops_acc; eassumption|exact Hc]|exact Hnm].
  - destruct Hok.
  - destruct (db_close d k) as [k1 ev1] eqn:Hc.
    assert (Hnm1 : k_merge k1 = None).
    { unfold db_close in Hc. destruct (h_close _ _ _) as [a e1]. destruct (close_all _ _) as [o e2]. injection Hc as <- _. exact Hnm. }
    destruct (db_open c k1) as [[d1 k2|er k2] ev2] eqn:Ho.
    + injection H as <- <- _ _. split; [eapply db_open_acc; eassumption|].
      unfold db_open, load_merge_files in Ho. rewrite Hnm1 in Ho.
      destruct (open_all _ _) as [files e2]. change (0 <? 0) with false in Ho.
      cbn -[h_open db_rotate replay_files split_last] in Ho.
      destruct (split_last files) as [[older [aid af]]|].
      * destruct (replay_files _ _ _ _) as [d3 t3]. destruct ((0 <=? aid) && lf_torn af).
        -- destruct (db_rotate d3) as [d4 e5]. injection Ho as _ <- _. exact Hnm1.
        -- injection Ho as _ <- _. exact Hnm1.
      * destruct (h_open _ _ _ _) as [n e]. destruct (replay_files _ _ _ _) as [d3 t3]. cbn [andb] in Ho.
        injection Ho as _ <- _. exact Hnm1.
    + injection H as <- <- _ _. split; [exact HA|].
      unfold db_open in Ho. destruct (load_merge_files k1) as [[k1' mid] e1]. destruct (open_all _ _) as [files e2].
      destruct (if 0 <? mid then _ else _) as [[hr k2'] e3]. destruct (load_hint _ _ _) as [d1 hinted].
      destruct (split_last files) as [[older [aid af]]|].
      * destruct (replay_files _ _ _ _) as [d3 t3]. destruct (_ && _); [destruct (db_rotate d3)|]; discriminate.
      * destruct (h_open _ _ _ _). destruct (replay_files _ _ _ _). cbn [andb] in Ho. discriminate.
Qed.

Theorem run_acc : forall ops d k s' rs evs,
  Acc d -> k_merge k = None -> Forall op_ok ops -> run (d, k) ops = (s', rs, evs) -> Acc (fst s').
Proof.
  induction ops as [|o ops IH]; intros d k s' rs evs HA Hnm Hok Hrun; cbn [run] in Hrun.
  - injection Hrun as <- _ _. exact HA.
  - inversion Hok as [|? ? Ho Hrest]; subst.
    destruct (step (d, k) o) as [[[d1 k1] r] ev1] eqn:Hst.
    destruct (run (d1, k1) ops) as [[s2 rs2] ev2] eqn:Hr2. injection Hrun as <- _ _.
    destruct (step_acc _ _ _ _ _ _ _ HA Hnm Ho Hst) as [HA1 Hnm1].
    eapply IH; eassumption.
Qed.

(* with merges, as long as the database is not restarted (adoption is C06) *)
Theorem step_acc_live d k o d' k' r evs :
  Acc d -> no_restart o -> step (d, k) o = ((d', k'), r, evs) -> Acc d'.
Proof.
  intros HA Hnr H. destruct o as [key v|key|key| | | | |sync id bops|order|c]; cbn [step] in H.
  - destruct (db_put d key v) as [[d1 e] ev1] eqn:Hp. injection H as <- _ _ _. eapply db_put_acc; eassumption.
  - destruct (db_get d key) as [[d1 v] ev1] eqn:Hg. injection H as <- _ _ _.
    eapply Acc_same; [eapply db_get_counters; eassumption|exact HA].
  - destruct (db_delete d key) as [[d1 e] ev1] eqn:Hp. injection H as <- _ _ _. eapply db_delete_acc; eassumption.
  - injection H as <- _ _ _. exact HA.
  - destruct (db_fold d) as [[d1 rr] ev1] eqn:Hf. injection H as <- _ _ _.
    eapply Acc_same; [eapply db_fold_aux_counters; exact Hf|exact HA].
  - unfold db_stat in H. injection H as <- _ _ _. exact HA.
  - unfold db_sync in H. destruct (h_sync _ _) as [a ev]. injection H as <- _ _ _. exact HA.
  - destruct (run_bops d (new_batch sync id) bops) as [[[d1 b1] rs] ev1] eqn:Hr.
    destruct (batch_commit d1 b1) as [[[d2 b2] e] ev2] eqn:Hc. injection H as <- _ _ _.
    eapply batch_commit_acc; [eapply run_bops_acc; eassumption|exact Hc].
  - destruct (db_merge d k order) as [[[d1 k1] e] ev1] eqn:Hm. injection H as <- _ _ _. eapply db_merge_acc; eassumption.
  - destruct Hnr.
Qed.
Theorem run_acc_live : forall ops d k s' rs evs,
  Acc d -> Forall no_restart ops -> run (d, k) ops = (s', rs, evs) -> Acc (fst s').
Proof.
  induction ops as [|o ops IH]; intros d k s' rs evs HA Hok Hrun; cbn [run] in Hrun.
  - injection Hrun as <- _ _. exact HA.
  - inversion Hok as [|? ? Ho Hrest]; subst.
    destruct (step (d, k) o) as [[[d1 k1] r] ev1] eqn:Hst.
    destruct (run (d1, k1) ops) as [[s2 rs2] ev2] eqn:Hr2. injection Hrun as <- _ _.
    eapply IH; [eapply step_acc_live; eassumption|exact Hrest|exact Hr2].
Qed.
