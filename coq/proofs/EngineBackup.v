(* EngineBackup.v — Backup at any point of any history (C20). *)
From Coq Require Import ZArith Lia ZifyN ZifyNat ZifyBool Sorting.Sorted.
From KV Require Import Bytes GenConsts Chunk Record Engine Script BytesLemmas AMapLemmas
  EngineFiles EngineInv EngineBatch EngineRefine EngineLog EngineRecover EngineSync EngineCrash
  EngineOpen EngineAdopt EngineMerge EngineKeep EngineMergeRun EnginePhys.
Open Scope N_scope.

Lemma same_frecs_orecs a b x : Forall2 same_frecs a b -> orecs a x = orecs b x.
Proof.
  unfold orecs. induction 1 as [|[i f] [j g] a b [Hi Hr] _ IH]; [reflexivity|]. cbn [fst snd older_get] in *. subst j.
  destruct (i =? x); [unfold file_log; rewrite Hr; reflexivity|exact IH].
Qed.

(* the source after Backup: same mapping, same relation to a pending merge *)
Theorem backup_source_G d k M d' kb evs :
  G d k M -> PhysInv d -> db_backup d k = (d', kb, evs) -> G d' k M /\ PhysInv d'.
Proof.
  intros [HL HM] HPh Hb.
  destruct (db_backup_spec d k M (d_cfg d) d' kb evs HL HPh Hb) as (HL' & HPh' & _ & Hlog & _).
  split; [|exact HPh']. split; [exact HL'|].
  assert (Hshape : d_active_id d' = d_active_id d /\ Forall2 same_frecs (d_older d') (d_older d)).
  { unfold db_backup in Hb. destruct (io_of d =? io_MMap).
    - pose proof (reset_all_spec (d_older d)) as Hcl. unfold h_reset in Hb.
      destruct (reset_all (d_older d)) as [o ev2]. cbn [fst] in Hcl. injection Hb as <- _ _.
      split; [reflexivity|]. cbn [set_older d_older]. apply closed_same_frecs. exact Hcl.
    - injection Hb as <- _ _. split; [reflexivity|apply Forall2_same_frecs_refl]. }
  destruct Hshape as [Haid Hsf].
  unfold MergeState in *. destruct (k_merge k) as [md|]; [|exact I].
  destruct HM as [Hig|(mid & M0 & OL & PL & Hmd & Hpos & Hle & Hlogd & Hlo & Hsr)]; [left; exact Hig|right].
  exists mid, M0, OL, PL. split; [exact Hmd|]. split; [exact Hpos|]. split; [rewrite Haid; exact Hle|].
  split; [rewrite Hlog; exact Hlogd|]. split; [|exact Hsr].
  rewrite <- Hlo. apply lo_lookup_ext. intros x _. apply same_frecs_orecs. exact Hsf.
Qed.

(* after any history (merges, adoptions, restarts included): the copy opens, under any
   configuration, to the mapping the source had when Backup was called; the source goes on *)
Theorem backup_after_history : forall c cb ops d k ev0 s' rs evs d' kb evb,
  db_open c empty_disk = (OpenOk d k, ev0) -> ops_ok (d, k) ops -> run (d, k) ops = (s', rs, evs) ->
  db_backup (fst s') (snd s') = (d', kb, evb) ->
  (exists dd k2 ev2, db_open cb kb = (OpenOk dd k2, ev2) /\ G dd k2 (final_state [] ops) /\ PhysInv dd /\ d_cfg dd = cb) /\
  G d' (snd s') (final_state [] ops) /\ PhysInv d'.
Proof.
  intros c cb ops d k ev0 s' rs evs d' kb evb Ho Hok Hrun Hb.
  destruct (open_empty_G c) as (d0 & k0 & e0 & Ho' & HG). rewrite Ho in Ho'. injection Ho' as <- <- _.
  destruct (run_G ops d k [] s' rs evs HG Hok Hrun) as [_ HGs].
  pose proof (run_phys ops d k s' rs evs (proj1 (db_open_phys _ _ _ _ _ Ho)) Hrun) as HPs.
  destruct (backup_source_G _ _ _ _ _ _ HGs HPs Hb) as [HG' HP'].
  split; [|split; assumption].
  destruct (db_backup_spec _ _ _ cb _ _ _ (proj1 HGs) HPs Hb) as (_ & _ & _ & _ & _ & _ & _ & dd & k2 & ev2 & Hod & HLd & Hcd & Hk2).
  exists dd, k2, ev2. split; [exact Hod|]. split; [|split; [exact (proj1 (db_open_phys _ _ _ _ _ Hod))|exact Hcd]].
  split; [exact HLd|]. unfold MergeState. rewrite Hk2. exact I.
Qed.
