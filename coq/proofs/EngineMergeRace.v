(* EngineMergeRace.v — Merge with writers racing the scan (C06): Put and Delete calls of other clients
   run between any two steps of the scan (model: Engine.db_merge_i).  The rewritten files then do not
   denote the mapping of any single instant, but: replaying the records written since the merge started
   over what they denote gives exactly the live mapping — the relation the adopting Open needs (MergeState).
   Argument, per key: a key no racing call touched keeps its index entry during the whole scan, so the scan
   treats its records as the sequential merge does; for a key some racing call touched, the last of the
   racing records decides its value whatever the rewritten files say. *)
From Coq Require Import ZArith Lia ZifyN ZifyNat ZifyBool Sorting.Sorted.
From KV Require Import Bytes GenConsts Chunk Record Engine Script BytesLemmas AMapLemmas
  EngineFiles EngineInv EngineBatch EngineRefine EngineLog EngineRecover EngineSync EngineCrash
  EngineOpen EngineAdopt EngineMerge EngineKeep EngineMergeRun.
Open Scope N_scope.

(* ---- the racing calls at specification level ------------------------------------------------------------ *)
Fixpoint s_mops (M : smap) (ops : list mop) : smap :=
  match ops with
  | [] => M
  | MPut k v :: rest => s_mops (fst (s_put M k v)) rest
  | MDel k :: rest => s_mops (fst (s_del M k)) rest
  end.
Lemma s_mops_app M a b : s_mops M (a ++ b) = s_mops (s_mops M a) b.
Proof. revert M. induction a as [|[k v|k] a IH]; intros M; cbn [app s_mops]; auto. Qed.

Definition haskey (L : list record) (k : bytes) : bool := existsb (fun r => bytes_eqb k (r_key r)) L.
Lemma haskey_app a b k : haskey (a ++ b) k = haskey a k || haskey b k.
Proof. unfold haskey. apply existsb_app. Qed.

(* what one racing call does to the engine state *)
Record race_step (mid : N) (d d' : db) (X : list record) : Prop := {
  rs_ext : extends d d';
  rs_log : log d' = log d ++ X;
  rs_plain : Forall (fun r => r_batch r = 0) X;
  rs_idx : forall k, haskey X k = false -> idx_get (d_index d') k = idx_get (d_index d) k;
  rs_keep : Keep mid d d';
  rs_cfg : d_cfg d' = d_cfg d;
  rs_frecs : mid <= d_active_id d -> forall x, x < mid -> frecs d' x = frecs d x }.

Lemma race_step_refl mid d : race_step mid d d [].
Proof.
  constructor; [apply extends_refl|rewrite app_nil_r; reflexivity|constructor|reflexivity|apply Keep_refl|reflexivity|reflexivity].
Qed.
Lemma race_step_trans mid a b c X Y : race_step mid a b X -> race_step mid b c Y -> race_step mid a c (X ++ Y).
Proof.
  intros [A1 A2 A3 A4 A5 A6 A7] [B1 B2 B3 B4 B5 B6 B7]. constructor.
  - eapply extends_trans; eassumption.
  - rewrite B2, A2, app_assoc. reflexivity.
  - apply Forall_app. auto.
  - intros k Hk. rewrite haskey_app in Hk. apply orb_false_iff in Hk. destruct Hk as [H1 H2].
    rewrite (B4 k H2). apply A4. exact H1.
  - eapply Keep_trans; eassumption.
  - congruence.
  - intros Hm x Hx. rewrite (B7 (proj1 (A5 Hm)) x Hx). apply A7; assumption.
Qed.

Lemma extends_index_only d ix n : extends d (add_reclaim (set_index d ix) n).
Proof. intros q x H. rewrite rec_at_add_reclaim. exact H. Qed.

Lemma db_append_frecs d r d' p evs :
  InvF d -> InvO d -> InvP d -> db_append d r = (d', p, evs) ->
  forall x, x < d_active_id d -> frecs d' x = frecs d x.
Proof.
  intros HF HO HP Happ x Hx. destruct (db_append_grows _ _ _ _ _ HF HO HP Happ) as (Hg & _).
  unfold frecs. destruct Hg as [(_ & -> & _)|(a & _ & -> & _)]; [reflexivity|].
  rewrite older_get_set. destruct (x =? d_active_id d) eqn:E; [lia|reflexivity].
Qed.

Lemma db_put_race mid d M k v d' e evs :
  LogInv d M -> db_put d k v = (d', e, evs) ->
  LogInv d' (fst (s_put M k v)) /\ exists X, race_step mid d d' X.
Proof.
  intros HL Hp. split; [exact (proj1 (db_put_log _ _ _ _ _ _ _ HL Hp))|].
  pose proof HL as [(HI & HO & HP & HR & Hm) Ht].
  pose proof (db_put_keep mid d k v d' e evs Hp) as HK.
  unfold db_put in Hp. destruct (len k =? 0) eqn:Ek.
  - injection Hp as <- _ _. exists []. apply race_step_refl.
  - destruct (db_append d (mkRec rt_Normal k v 0)) as [[d1 p] ev1] eqn:Happ.
    destruct (db_append_spec _ _ _ _ _ (proj1 HI) Happ) as (HF1 & Hext & Hnew & Hfresh & Hix & Hcfg & _).
    destruct (db_append_grows _ _ _ _ _ (proj1 HI) HO HP Happ) as (_ & HP1 & HO1 & Hlog1).
    destruct (idx_put (d_index d1) k p) as [ix old] eqn:Hip. injection Hp as <- _ _.
    exists [mkRec rt_Normal k v 0]. constructor.
    + eapply extends_trans; [exact Hext|apply extends_index_only].
    + rewrite <- Hlog1. apply log_same; reflexivity.
    + constructor; [reflexivity|constructor].
    + intros k' Hk'. unfold haskey in Hk'. cbn [existsb r_key] in Hk'. rewrite orb_false_r in Hk'.
      cbn [add_reclaim set_counters set_index d_index]. unfold idx_put in Hip. 
      assert (ix = fst (amap_put (d_index d1) k p)) by (rewrite Hip; reflexivity). subst ix.
      unfold idx_get. rewrite amap_get_put, Hk', Hix. reflexivity.
    + exact HK.
    + cbn. exact Hcfg.
    + intros Hmid x Hx. unfold frecs. cbn [add_reclaim set_counters set_index d_older].
      apply (db_append_frecs _ _ _ _ _ (proj1 HI) HO HP Happ). lia.
Qed.

Lemma db_delete_race mid d M k d' e evs :
  LogInv d M -> db_delete d k = (d', e, evs) ->
  LogInv d' (fst (s_del M k)) /\ exists X, race_step mid d d' X.
Proof.
  intros HL Hp. split; [exact (proj1 (db_delete_log _ _ _ _ _ _ HL Hp))|].
  pose proof HL as [(HI & HO & HP & HR & Hm) Ht].
  pose proof (db_delete_keep mid d k d' e evs Hp) as HK.
  unfold db_delete in Hp. destruct (len k =? 0) eqn:Ek.
  - injection Hp as <- _ _. exists []. apply race_step_refl.
  - destruct (idx_get (d_index d) k) as [p0|] eqn:Eg.
    2: { injection Hp as <- _ _. exists []. apply race_step_refl. }
    destruct (db_append d (mkRec rt_Deleted k [] 0)) as [[d1 p] ev1] eqn:Happ.
    destruct (db_append_spec _ _ _ _ _ (proj1 HI) Happ) as (HF1 & Hext & Hnew & Hfresh & Hix & Hcfg & _).
    destruct (db_append_grows _ _ _ _ _ (proj1 HI) HO HP Happ) as (_ & HP1 & HO1 & Hlog1).
    cbn [add_reclaim set_counters d_index] in Hp.
    destruct (idx_del (d_index d1) k) as [ix old] eqn:Hid.
    assert (Hixe : ix = fst (amap_del (d_index d1) k)) by (unfold idx_del in Hid; rewrite Hid; reflexivity).
    assert (Hsorted : sorted (d_index d1)) by (rewrite Hix; exact (proj1 (proj2 HI))).
    exists [mkRec rt_Deleted k [] 0].
    assert (Hidx : forall dd, d_index dd = ix -> forall k', haskey [mkRec rt_Deleted k [] 0] k' = false ->
                     idx_get (d_index dd) k' = idx_get (d_index d) k').
    { intros dd Hdd k' Hk'. unfold haskey in Hk'. cbn [existsb r_key] in Hk'. rewrite orb_false_r in Hk'.
      rewrite Hdd, Hixe. unfold idx_get. rewrite amap_get_del by exact Hsorted. rewrite Hk', Hix. reflexivity. }
    assert (Hfr : forall dd, d_older dd = d_older d1 -> mid <= d_active_id d -> forall x, x < mid -> frecs dd x = frecs d x).
    { intros dd Hdd Hmid x Hx. unfold frecs. rewrite Hdd. apply (db_append_frecs _ _ _ _ _ (proj1 HI) HO HP Happ). lia. }
    destruct old as [po|]; injection Hp as <- _ _.
    + constructor; [|rewrite <- Hlog1; apply log_same; reflexivity|constructor; [reflexivity|constructor]| |exact HK|cbn; exact Hcfg|apply Hfr; reflexivity].
      * intros q x Hq. apply Hext in Hq. cbn. exact Hq.
      * apply Hidx. reflexivity.
    + constructor; [|rewrite <- Hlog1; apply log_same; reflexivity|constructor; [reflexivity|constructor]| |exact HK|cbn; exact Hcfg|apply Hfr; reflexivity].
      * intros q x Hq. apply Hext in Hq. cbn. exact Hq.
      * apply Hidx. reflexivity.
Qed.

Lemma run_mops_race mid : forall ops d M d' evs,
  LogInv d M -> run_mops d ops = (d', evs) ->
  LogInv d' (s_mops M ops) /\ exists X, race_step mid d d' X.
Proof.
  induction ops as [|[k v|k] ops IH]; intros d M d' evs HL Hr; cbn [run_mops s_mops] in *.
  - injection Hr as <- _. split; [exact HL|]. exists []. apply race_step_refl.
  - destruct (db_put d k v) as [[d1 e1] ev1] eqn:Hp. destruct (run_mops d1 ops) as [d2 ev2] eqn:Hr2. injection Hr as <- _.
    destruct (db_put_race mid d M k v d1 e1 ev1 HL Hp) as [HL1 [X HX]].
    destruct (IH d1 _ d2 ev2 HL1 Hr2) as [HL2 [Y HY]].
    split; [exact HL2|]. exists (X ++ Y). eapply race_step_trans; eassumption.
  - destruct (db_delete d k) as [[d1 e1] ev1] eqn:Hp. destruct (run_mops d1 ops) as [d2 ev2] eqn:Hr2. injection Hr as <- _.
    destruct (db_delete_race mid d M k d1 e1 ev1 HL Hp) as [HL1 [X HX]].
    destruct (IH d1 _ d2 ev2 HL1 Hr2) as [HL2 [Y HY]].
    split; [exact HL2|]. exists (X ++ Y). eapply race_step_trans; eassumption.
Qed.

(* ---- the state of the scan ----------------------------------------------------------------------------------- *)
Section Scan.
(* the records (with positions) of the input files when the scan started *)
Variable frecs0 : N -> list (record * pos).
(* OL: the records of the files below mid (the input of the merge, fixed); PL: what has been written since;
   ix0: the index when the scan started *)
Record scan_inv (mid : N) (ix0 : index) (OL : list record) (d : db) (PL : list record) : Prop := {
  si_frecs : forall x, x < mid -> frecs d x = frecs0 x;
  si_log : log d = OL ++ PL;
  si_lo : lo_lookup (d_older d) (N.to_nat mid) = OL;
  si_mid : mid <= d_active_id d;
  si_plain : Forall (fun r => r_batch r = 0) PL;
  si_idx : forall k, haskey PL k = false -> idx_get (d_index d) k = idx_get ix0 k }.

Lemma scan_inv_step mid ix0 OL d PL d' X :
  scan_inv mid ix0 OL d PL -> race_step mid d d' X -> scan_inv mid ix0 OL d' (PL ++ X).
Proof.
  intros [A0 A1 A2 A3 A4 A5] [B1 B2 B3 B4 B5 B6 B7]. destruct (B5 A3) as [Hmid Hor]. constructor.
  - intros x Hx. rewrite (B7 A3 x Hx). apply A0. exact Hx.
  - rewrite B2, A1, app_assoc. reflexivity.
  - rewrite <- A2. apply lo_lookup_ext. intros x Hx. apply Hor. lia.
  - exact Hmid.
  - apply Forall_app. auto.
  - intros k Hk. rewrite haskey_app in Hk. apply orb_false_iff in Hk. destruct Hk as [H1 H2].
    rewrite (B4 k H2). apply A5. exact H1.
Qed.

Lemma scan_inv_same mid ix0 OL d PL d' :
  scan_inv mid ix0 OL d PL -> log d' = log d -> d_index d' = d_index d -> d_active_id d' = d_active_id d ->
  (forall x, x < mid -> frecs d' x = frecs d x) -> scan_inv mid ix0 OL d' PL.
Proof.
  intros [A0 A1 A2 A3 A4 A5] H1 H2 H3 H4. constructor.
  - intros x Hx. rewrite (H4 x Hx). apply A0. exact Hx.
  - rewrite H1. exact A1.
  - rewrite <- A2. apply lo_lookup_ext. intros x Hx. unfold orecs.
    pose proof (H4 x ltac:(lia)) as Hf. unfold frecs in Hf. unfold file_log.
    destruct (older_get (d_older d') x) as [f1|], (older_get (d_older d) x) as [f2|]; cbn in *.
    + rewrite Hf. reflexivity.
    + rewrite Hf. reflexivity.
    + rewrite <- Hf. reflexivity.
    + reflexivity.
  - rewrite H3. exact A3.
  - exact A4.
  - intros k Hk. rewrite H2. apply A5. exact Hk.
Qed.

Definition keyf (k : bytes) (r : record) : bool := bytes_eqb k (r_key r).

Lemma concat_firstn_S {A} (l : list (list A)) n : concat (firstn (S n) l) = hd [] l ++ concat (firstn n (tl l)).
Proof. destruct l as [|x l]; cbn [firstn hd tl concat]; [destruct n; reflexivity|reflexivity]. Qed.
Lemma skipn_S_tl {A} (l : list A) n : skipn (S n) l = skipn n (tl l).
Proof. destruct l as [|x l]; cbn [skipn tl]; [destruct n; reflexivity|reflexivity]. Qed.

(* where the records of the file being scanned sit (in the database as it was when the scan started) *)
Definition located (d0 : db) (fid : N) (rs : list (record * pos)) : Prop :=
  Forall (fun rp => forall q, p_fid q = fid -> p_off q = p_off (snd rp) -> p_bid q = p_bid (snd rp) ->
                              rec_at d0 q = Some (fst rp)) rs.

Lemma merge_file_i_spec c fid nm mid ix0 OL d0 : forall rs d M PL m sched d' res sched' evs,
  LogInv d M -> scan_inv mid ix0 OL d PL -> extends d0 d -> located d0 fid rs ->
  MF m -> MH m -> ms_active_id m < nm ->
  merge_file_i c fid nm d m rs sched = (d', res, sched', evs) ->
  exists n X, LogInv d' (s_mops M (concat (firstn n sched))) /\ sched' = skipn n sched /\
    scan_inv mid ix0 OL d' (PL ++ X) /\ extends d0 d' /\ d_cfg d' = d_cfg d /\
    match res with
    | MsOk m' => MF m' /\ MH m' /\ ms_active_id m' < nm /\
                 exists W, map fst (ms_recs m') = map fst (ms_recs m) ++ W /\
                   forall k, haskey (PL ++ X) k = false -> filter (keyf k) W = filter (keyf k) (rewritten ix0 fid rs)
    | MsErr _ _ => True
    end.
Proof.
  induction rs as [|[r p] rs IH]; intros d M PL m sched d' res sched' evs HL HS Hext Hloc HF HH Hlt Hm; cbn [merge_file_i] in Hm.
  - injection Hm as <- <- <- _. exists 0%nat, []. cbn [firstn concat s_mops skipn]. rewrite app_nil_r.
    split; [exact HL|]. split; [reflexivity|]. split; [exact HS|]. split; [exact Hext|]. split; [reflexivity|].
    split; [exact HF|]. split; [exact HH|]. split; [exact Hlt|]. exists []. rewrite app_nil_r. split; [reflexivity|]. intros k _. reflexivity.
  - destruct (run_mops d (hd [] sched)) as [d1 ev0] eqn:Hrm.
    destruct (run_mops_race mid _ _ _ _ _ HL Hrm) as [HL1 [X1 HX1]].
    pose proof (scan_inv_step _ _ _ _ _ _ _ HS HX1) as HS1.
    assert (Hext1 : extends d0 d1) by (eapply extends_trans; [exact Hext|exact (rs_ext _ _ _ _ HX1)]).
    pose proof (Forall_inv Hloc) as Hloc1. pose proof (Forall_inv_tail Hloc) as Hloc2. cbn [fst snd] in Hloc1.
    (* the tail of the scan, from d1 with output state mm and output so far W0 *)
    assert (Htail : forall mm W0 d2 res2 sched2 ev3,
              MF mm -> MH mm -> ms_active_id mm < nm -> map fst (ms_recs mm) = map fst (ms_recs m) ++ W0 ->
              (forall k, haskey (PL ++ X1) k = false -> filter (keyf k) W0 = filter (keyf k) (rewritten ix0 fid [(r, p)])) ->
              merge_file_i c fid nm d1 mm rs (tl sched) = (d2, res2, sched2, ev3) ->
              exists n X, LogInv d2 (s_mops M (concat (firstn n sched))) /\ sched2 = skipn n sched /\
                scan_inv mid ix0 OL d2 (PL ++ X) /\ extends d0 d2 /\ d_cfg d2 = d_cfg d /\
                match res2 with
                | MsOk m' => MF m' /\ MH m' /\ ms_active_id m' < nm /\
                   exists W, map fst (ms_recs m') = map fst (ms_recs m) ++ W /\
                     forall k, haskey (PL ++ X) k = false -> filter (keyf k) W = filter (keyf k) (rewritten ix0 fid ((r, p) :: rs))
                | MsErr _ _ => True
                end).
    { intros mm W0 d2 res2 sched2 ev3 HFm HHm Hltm HW0 HfW0 Hrest.
      destruct (IH d1 _ (PL ++ X1) mm (tl sched) d2 res2 sched2 ev3 HL1 HS1 Hext1 Hloc2 HFm HHm Hltm Hrest)
        as (n & X & HL2 & Hs2 & HS2 & Hext2 & Hcfg2 & Hres2).
      exists (S n), (X1 ++ X). rewrite concat_firstn_S, s_mops_app, skipn_S_tl, app_assoc.
      split; [exact HL2|]. split; [exact Hs2|]. split; [exact HS2|]. split; [exact Hext2|].
      split; [rewrite Hcfg2; exact (rs_cfg _ _ _ _ HX1)|].
      destruct res2 as [m'|]; [|exact I]. destruct Hres2 as (I1 & I2 & I3 & W & HW & HfW).
      split; [exact I1|]. split; [exact I2|]. split; [exact I3|]. exists (W0 ++ W).
      split; [rewrite HW, HW0, <- app_assoc; reflexivity|].
      intros k Hk. rewrite filter_app, (HfW k Hk).
      assert (Hk1 : haskey (PL ++ X1) k = false).
      { rewrite haskey_app in Hk. apply orb_false_iff in Hk. destruct Hk as [Hk _]. exact Hk. }
      rewrite (HfW0 k Hk1). unfold rewritten. cbn [filter].
      destruct (live_in ix0 fid (r, p)); cbn [map filter app fst]; [|reflexivity].
      destruct (keyf k (plainify r)); reflexivity. }
    (* the record is not rewritten *)
    assert (Hskip : (forall k, haskey (PL ++ X1) k = false -> keyf k (plainify r) = true -> live_in ix0 fid (r, p) = false) ->
              forall d2 res2 sched2 ev3, merge_file_i c fid nm d1 m rs (tl sched) = (d2, res2, sched2, ev3) ->
              exists n X, LogInv d2 (s_mops M (concat (firstn n sched))) /\ sched2 = skipn n sched /\
                scan_inv mid ix0 OL d2 (PL ++ X) /\ extends d0 d2 /\ d_cfg d2 = d_cfg d /\
                match res2 with
                | MsOk m' => MF m' /\ MH m' /\ ms_active_id m' < nm /\
                   exists W, map fst (ms_recs m') = map fst (ms_recs m) ++ W /\
                     forall k, haskey (PL ++ X) k = false -> filter (keyf k) W = filter (keyf k) (rewritten ix0 fid ((r, p) :: rs))
                | MsErr _ _ => True
                end).
    { intros Hdead d2 res2 sched2 ev3 Hrest.
      apply (Htail m [] d2 res2 sched2 ev3 HF HH Hlt ltac:(rewrite app_nil_r; reflexivity)); [|exact Hrest].
      intros k Hk. unfold rewritten. cbn [filter]. destruct (live_in ix0 fid (r, p)) eqn:El; [|reflexivity].
      cbn [map filter fst]. destruct (keyf k (plainify r)) eqn:Ek; [|reflexivity].
      discriminate (Hdead k Hk Ek). }
    unfold live_in in Hskip. cbn [fst snd] in Hskip.
    destruct (idx_get (d_index d1) (r_key r)) as [q|] eqn:Eq.
    2: { destruct (merge_file_i c fid nm d1 m rs (tl sched)) as [[[d2 res2] sched2] ev3] eqn:Hrest. injection Hm as <- <- <- _.
         apply (Hskip ltac:(intros k Hk Ek; unfold keyf in Ek; cbn [plainify r_key] in Ek; apply bytes_eqb_eq in Ek; subst k;
                            rewrite <- (si_idx _ _ _ _ _ HS1 _ Hk), Eq; reflexivity) _ _ _ _ eq_refl). }
    destruct ((p_fid q =? fid) && (p_off q =? p_off p) && (p_bid q =? p_bid p)) eqn:Elive.
    2: { destruct (merge_file_i c fid nm d1 m rs (tl sched)) as [[[d2 res2] sched2] ev3] eqn:Hrest. injection Hm as <- <- <- _.
         apply (Hskip ltac:(intros k Hk Ek; unfold keyf in Ek; cbn [plainify r_key] in Ek; apply bytes_eqb_eq in Ek; subst k;
                            rewrite <- (si_idx _ _ _ _ _ HS1 _ Hk), Eq; exact Elive) _ _ _ _ eq_refl). }
    (* the record is rewritten: it is the one the index points to now, hence not a tombstone *)
    assert (Hty : (r_type r =? rt_Deleted) = false).
    { pose proof HL1 as [(HI1 & _) _]. destruct HI1 as [_ [_ Hres1]].
      destruct (Hres1 _ _ (amap_get_in _ _ _ Eq)) as (r' & Hr' & _ & Hty').
      assert (Hq : p_fid q = fid /\ p_off q = p_off p /\ p_bid q = p_bid p) by lia. destruct Hq as (Q1 & Q2 & Q3).
      pose proof (Hext1 _ _ (Hloc1 q Q1 Q2 Q3)) as Hr. rewrite Hr in Hr'. injection Hr' as <-. exact Hty'. }
    destruct (ms_append c m (mkRec (r_type r) (r_key r) (r_value r) 0)) as [[m1 np] ev1] eqn:Happ.
    destruct (ms_append_spec _ _ _ _ _ _ HF Happ) as (HF1 & Hrecs1 & Hh1 & Hid1).
    destruct (nm <=? ms_active_id m1) eqn:Enm.
    { injection Hm as <- <- <- _. exists 1%nat, X1. rewrite concat_firstn_S. cbn [firstn concat]. rewrite app_nil_r, skipn_S_tl.
      split; [exact HL1|]. split; [reflexivity|]. split; [exact HS1|]. split; [exact Hext1|]. split; [exact (rs_cfg _ _ _ _ HX1)|exact I]. }
    destruct (ms_hint_append c m1 (r_key r) np) as [m2 ev2] eqn:Hha.
    destruct (ms_hint_append_spec _ _ _ _ _ _ Hha) as (A & B & C & D).
    destruct (merge_file_i c fid nm d1 m2 rs (tl sched)) as [[[d2 res2] sched2] ev3] eqn:Hrest. injection Hm as <- <- <- _.
    assert (Hrecs2 : ms_recs m2 = ms_recs m ++ [(plainify r, np)]) by (unfold ms_recs; rewrite B, C; exact Hrecs1).
    assert (HF2 : MF m2) by (unfold MF; rewrite A, B, C; exact HF1).
    assert (HH2 : MH m2).
    { destruct HH as [Hh Hpl]. split.
      - rewrite D, Hh1, Hh, Hrecs2. unfold hint_of. rewrite map_app. reflexivity.
      - rewrite Hrecs2. apply Forall_app. split; [exact Hpl|]. constructor; [|constructor].
        split; [reflexivity|]. cbn [fst plainify r_type]. exact Hty. }
    apply (Htail m2 [plainify r] d2 res2 sched2 ev3 HF2 HH2 ltac:(rewrite A; lia)); [| |exact Hrest].
    + rewrite Hrecs2, map_app. reflexivity.
    + intros k Hk. unfold rewritten. cbn [filter].
      destruct (keyf k (plainify r)) eqn:Ek.
      * unfold keyf in Ek. cbn [plainify r_key] in Ek. apply bytes_eqb_eq in Ek. subst k.
        unfold live_in. cbn [fst snd]. rewrite <- (si_idx _ _ _ _ _ HS1 _ Hk), Eq, Elive. cbn [map filter fst].
        unfold keyf. cbn [plainify r_key]. rewrite bytes_eqb_refl. reflexivity.
      * destruct (live_in ix0 fid (r, p)); cbn [map filter fst]; rewrite ?Ek; reflexivity.
Qed.

Lemma located_file d fid f : InvF d -> InvP d -> older_get (d_older d) fid = Some f -> located d fid (lf_recs f).
Proof.
  intros [_ Hold] [_ Hpo] Hg. apply Forall_forall. intros [r p] Hin q Q1 Q2 Q3. cbn [fst snd] in *.
  destruct (Hold _ _ Hg) as [_ Hlt]. destruct (Hpo _ _ Hg r p Hin) as [_ Hlk].
  unfold rec_at, file_of. rewrite Q1. destruct (fid =? d_active_id d) eqn:E; [lia|]. rewrite Hg, Q2, Q3. exact Hlk.
Qed.

(* the output of the sequential merge over the snapshot, file by file *)
Definition merged0 (ix0 : index) (order : list N) : list record :=
  concat (map (fun fid => rewritten ix0 fid (frecs0 fid)) order).

Lemma merge_files_i_spec c nm mid ix0 OL : forall order d M PL m sched d' res evs,
  LogInv d M -> scan_inv mid ix0 OL d PL -> Forall (fun x => x < mid) order ->
  MF m -> MH m -> ms_active_id m < nm ->
  merge_files_i c d order nm m sched = (d', res, evs) ->
  exists n X, LogInv d' (s_mops M (concat (firstn n sched))) /\ scan_inv mid ix0 OL d' (PL ++ X) /\ d_cfg d' = d_cfg d /\ match res with
    | MsOk m' => MF m' /\ MH m' /\ ms_active_id m' < nm /\ exists W, map fst (ms_recs m') = map fst (ms_recs m) ++ W /\ forall k, haskey (PL ++ X) k = false -> filter (keyf k) W = filter (keyf k) (merged0 ix0 order)
    | MsErr _ _ => True
    end.
Proof.
  induction order as [|fid order IH]; intros d M PL m sched d' res evs HL HS Hord HF HH Hlt Hm; cbn [merge_files_i] in Hm.
  - injection Hm as <- <- _. exists 0%nat, []. cbn [firstn concat s_mops]. rewrite app_nil_r.
    split; [exact HL|]. split; [exact HS|]. split; [reflexivity|].
    split; [exact HF|]. split; [exact HH|]. split; [exact Hlt|]. exists []. rewrite app_nil_r. split; [reflexivity|]. intros k _. reflexivity.
  - pose proof (Forall_inv Hord) as Hfid. pose proof (Forall_inv_tail Hord) as Hord'.
    pose proof HL as [(HI & HO & HP & HR & Hmm) Ht].
    destruct (older_get (d_older d) fid) as [f|] eqn:Hg.
    + pose proof (scan_touch_same (c_io c) (FData fid) f) as [Hr Hs].
      destruct (scan_touch (c_io c) (FData fid) f) as [f' ev0]. cbn [fst] in Hr, Hs.
      set (d1 := set_older d (older_set (d_older d) fid f')) in *.
      destruct (touch_older_spec d fid f f' (proj1 HI) Hg Hr Hs) as [HFd1 Hsame]. fold d1 in HFd1, Hsame.
      assert (Hsf : same_files d d1).
      { split; [reflexivity|]. split; [reflexivity|]. unfold d1. cbn [set_older d_older].
        eapply older_set_replace; [exact HO|exact Hg|exact Hr]. }
      assert (HL1 : LogInv d1 M).
      { apply (LogInv_same_files d d1 M HL); [eapply Inv_same; eassumption|eapply R_same; eassumption|exact Hsf]. }
      assert (HS1 : scan_inv mid ix0 OL d1 PL).
      { apply (scan_inv_same mid ix0 OL d PL d1 HS); [exact (proj1 (same_files_props _ _ Hsf))|reflexivity|reflexivity|].
        intros x _. unfold d1. apply (frecs_touch d fid f f' x Hg Hr). }
      assert (Hg1 : older_get (d_older d1) fid = Some f').
      { unfold d1. cbn [set_older d_older]. rewrite older_get_set, N.eqb_refl. reflexivity. }
      pose proof HL1 as [(HI1 & HO1 & HP1 & _) _].
      pose proof (located_file d1 fid f' (proj1 HI1) HP1 Hg1) as Hloc.
      destruct (merge_file_i c fid nm d1 m (lf_recs f') sched) as [[[d2 res1] sched1] ev1] eqn:Hmf.
      destruct (merge_file_i_spec c fid nm mid ix0 OL d1 (lf_recs f') d1 M PL m sched d2 res1 sched1 ev1
                  HL1 HS1 (extends_refl d1) Hloc HF HH Hlt Hmf) as (n1 & X1 & HL2 & Hs1 & HS2 & _ & Hcfg2 & Hres1).
      assert (Hfr : lf_recs f' = frecs0 fid).
      { rewrite <- (si_frecs _ _ _ _ _ HS1 fid Hfid). unfold frecs. rewrite Hg1. reflexivity. }
      destruct res1 as [m1|e1 m1].
      * destruct Hres1 as (HF1 & HH1 & Hlt1 & W1 & HW1 & HfW1).
        destruct (merge_files_i c d2 order nm m1 sched1) as [[d3 res2] ev2] eqn:Hrest. injection Hm as <- <- _.
        destruct (IH d2 _ (PL ++ X1) m1 sched1 d3 res2 ev2 HL2 HS2 Hord' HF1 HH1 Hlt1 Hrest)
          as (n2 & X2 & HL3 & HS3 & Hcfg3 & Hres2).
        exists (n1 + n2)%nat, (X1 ++ X2). rewrite app_assoc.
        split.
        { rewrite Hs1 in HL3. rewrite <- s_mops_app in HL3.
          replace (concat (firstn (n1 + n2) sched)) with (concat (firstn n1 sched) ++ concat (firstn n2 (skipn n1 sched))); [exact HL3|].
          rewrite <- concat_app. f_equal. clear. revert sched. induction n1 as [|n1 IHn]; intros sched; [reflexivity|].
          destruct sched as [|x sched]; cbn [plus firstn skipn app]; [destruct n2; reflexivity|]. rewrite IHn. reflexivity. }
        split; [exact HS3|]. split; [rewrite Hcfg3, Hcfg2; reflexivity|].
        destruct res2 as [m2|]; [|exact I]. destruct Hres2 as (I1 & I2 & I3 & W2 & HW2 & HfW2).
        split; [exact I1|]. split; [exact I2|]. split; [exact I3|]. exists (W1 ++ W2).
        split; [rewrite HW2, HW1, <- app_assoc; reflexivity|].
        intros k Hk. rewrite filter_app, (HfW2 k Hk).
        assert (Hk1 : haskey (PL ++ X1) k = false).
        { rewrite haskey_app in Hk. apply orb_false_iff in Hk. destruct Hk as [Hk _]. exact Hk. }
        rewrite (HfW1 k Hk1). unfold merged0. cbn [map concat]. rewrite filter_app, Hfr. reflexivity.
      * injection Hm as <- <- _. exists n1, X1. split; [exact HL2|]. split; [exact HS2|]. split; [exact Hcfg2|exact I].
    + (* the file does not exist (any more): nothing to scan; at the snapshot it had no records either *)
      destruct (IH d M PL m sched d' res evs HL HS Hord' HF HH Hlt Hm) as (n & X & HL2 & HS2 & Hcfg2 & Hres).
      exists n, X. split; [exact HL2|]. split; [exact HS2|]. split; [exact Hcfg2|].
      destruct res as [m'|]; [|exact I]. destruct Hres as (I1 & I2 & I3 & W & HW & HfW).
      split; [exact I1|]. split; [exact I2|]. split; [exact I3|]. exists W. split; [exact HW|].
      intros k Hk. rewrite (HfW k Hk). unfold merged0. cbn [map concat]. rewrite filter_app.
      assert (Hz : frecs0 fid = []).
      { rewrite <- (si_frecs _ _ _ _ _ HS fid Hfid). unfold frecs. rewrite Hg. reflexivity. }
      rewrite Hz. reflexivity.
Qed.
End Scan.

(* ---- what a list of plain records does to one key ------------------------------------------------------------- *)
Fixpoint lastop (L : list record) (k : bytes) (init : option bytes) : option bytes :=
  match L with
  | [] => init
  | r :: rest =>
    lastop rest k (if bytes_eqb k (r_key r) then (if r_type r =? rt_Deleted then None else Some (r_value r)) else init)
  end.

Lemma apply_recs_get : forall L m k, sorted m -> amap_get (s_apply_recs m L) k = lastop L k (amap_get m k).
Proof.
  induction L as [|r L IH]; intros m k Hs; [reflexivity|]. cbn [s_apply_recs fold_left lastop].
  change (fold_left rec_apply L (rec_apply m r)) with (s_apply_recs (rec_apply m r) L).
  assert (Hs' : sorted (rec_apply m r)).
  { unfold rec_apply. destruct (r_type r =? rt_Deleted); [apply amap_del_sorted|apply amap_put_sorted]; exact Hs. }
  rewrite (IH _ _ Hs'). f_equal. unfold rec_apply.
  destruct (r_type r =? rt_Deleted); [rewrite amap_get_del by exact Hs|rewrite amap_get_put]; reflexivity.
Qed.

Lemma lastop_haskey : forall L k a b, haskey L k = true -> lastop L k a = lastop L k b.
Proof.
  induction L as [|r L IH]; intros k a b H; [discriminate|]. unfold haskey in H. cbn [existsb] in H. cbn [lastop].
  destruct (bytes_eqb k (r_key r)) eqn:E; [reflexivity|]. cbn [orb] in H. apply IH. exact H.
Qed.
Lemma lastop_nokey : forall L k a, haskey L k = false -> lastop L k a = a.
Proof.
  induction L as [|r L IH]; intros k a H; [reflexivity|]. unfold haskey in H. cbn [existsb] in H. cbn [lastop].
  apply orb_false_iff in H. destruct H as [H1 H2]. rewrite H1. apply IH. exact H2.
Qed.

Lemma lastv_filter : forall L k init, lastv (filter (keyf k) L) k init = lastv L k init.
Proof.
  induction L as [|r L IH]; intros k init; [reflexivity|]. cbn [filter lastv]. unfold keyf at 1.
  destruct (bytes_eqb k (r_key r)) eqn:E; [cbn [lastv]; rewrite E; apply IH|apply IH].
Qed.

(* ---- Merge with racing writers, as a whole ------------------------------------------------------------------------ *)
Theorem db_merge_i_G d k M order pro sched d' k' e evs :
  G d k M -> Forall (fun x => x <= d_active_id d) order -> (e = None -> order_ok d order) ->
  db_merge_i d k order pro sched = (d', k', e, evs) ->
  exists n, G d' k' (s_mops M (pro ++ concat (firstn n sched))).
Proof.
  intros [HL _] Hbound Hord Hm. pose proof HL as [(HI & HO & HP & HR & Hmm) Ht].
  unfold db_merge_i in Hm.
  destruct (db_rotate d) as [d1 ev1] eqn:Hrot.
  destruct (db_rotate_spec d d1 ev1 (proj1 HI) Hrot) as (HF1 & Hrec1 & Hix1 & Hcfg1 & _).
  assert (Hs1 : same_recs d d1) by (split; assumption).
  assert (HI1 : Inv d1) by (eapply Inv_same; eassumption).
  assert (HR1 : R d1 M) by (eapply R_same; eassumption).
  destruct (db_rotate_log _ _ _ (proj1 HI) HO HP Hrot) as (L1 & O1 & P1).
  assert (HL1 : LogInv d1 M) by (apply (LogInv_keep d d1 M HL HI1 HR1 L1 O1 P1)).
  assert (Hact1 : d_active_id d1 = d_active_id d + 1 /\ lf_recs (d_active d1) = [] /\
                  forall fid f, older_get (d_older d1) fid = Some f -> fid = d_active_id d \/ older_get (d_older d) fid <> None).
  { unfold db_rotate in Hrot.
    destruct (h_sync (FData (d_active_id d)) (d_active d)) as [a e1].
    pose proof (h_open_new (io_of d) (FData (d_active_id d + 1))) as [Hn _].
    destruct (h_open (io_of d) (FData (d_active_id d + 1)) false lf_empty) as [n e2]. cbn [fst] in Hn.
    injection Hrot as <- _. cbn [d_active_id d_active d_older]. split; [reflexivity|]. split; [exact Hn|].
    intros fid f Hg. rewrite older_get_set in Hg. destruct (fid =? d_active_id d) eqn:E; [left; lia|].
    right. rewrite Hg. discriminate. }
  destruct Hact1 as (Haid1 & Hemp1 & Hold1).
  set (mid := d_active_id d1) in *.
  (* the scan starts from d1: nothing has been written since *)
  assert (HS0 : scan_inv (frecs d1) mid (d_index d1) (log d1) d1 []).
  { constructor; [reflexivity|rewrite app_nil_r; reflexivity| |apply N.le_refl|constructor|reflexivity].
    rewrite <- (below_lookup (d_older d1) (ids_below_asc _ _ O1)), N2Nat.id. unfold mid. rewrite (below_all _ _ O1).
    unfold log, file_log. rewrite Hemp1. cbn [map]. rewrite app_nil_r. reflexivity. }
  destruct (run_mops d1 pro) as [d1p evp] eqn:Hpro.
  destruct (run_mops_race mid _ _ _ _ _ HL1 Hpro) as [HLp [Xp HXp]].
  pose proof (scan_inv_step _ _ _ _ _ _ _ _ HS0 HXp) as HSp. cbn [app] in HSp.
  pose proof (h_open_new (c_io (d_cfg d)) (MData 0)) as [Ha0 Ha0s].
  destruct (h_open (c_io (d_cfg d)) (MData 0) false lf_empty) as [a0 ev3]. cbn [fst] in Ha0, Ha0s.
  assert (Hh0 : hf_recs (fst (hf_open_new (c_io (d_cfg d)))) = []) by (unfold hf_open_new; destruct (_ =? _); reflexivity).
  destruct (hf_open_new (c_io (d_cfg d))) as [h0 ev4]. cbn [fst] in Hh0.
  set (m0 := mkMs 0 a0 [] h0) in *.
  assert (HF0 : MF m0).
  { unfold MF, m0. cbn [ms_active ms_active_id ms_older].
    split; [intros r p Hin; rewrite Ha0 in Hin; destruct Hin|].
    split; [intros r p Hin; rewrite Ha0 in Hin; destruct Hin|].
    split; [exact I|]. split; [constructor|]. intros x Hx. lia. }
  assert (HH0 : MH m0).
  { unfold MH, ms_recs, m0. cbn [ms_active ms_older ms_hint]. rewrite Ha0, Hh0. split; [reflexivity|constructor]. }
  assert (Hord' : Forall (fun x => x < mid) order).
  { eapply Forall_impl; [|exact Hbound]. intros x Hx. cbv beta in Hx. rewrite Haid1. lia. }
  destruct (merge_files_i (d_cfg d) d1p order mid m0 sched) as [[d2 res] ev5] eqn:Hmf.
  destruct (merge_files_i_spec (frecs d1) (d_cfg d) mid mid (d_index d1) (log d1) order d1p _ Xp m0 sched d2 res ev5
              HLp HSp Hord' HF0 HH0 ltac:(unfold m0, mid; cbn [ms_active_id]; lia) Hmf)
    as (n & X & HL2 & HS2 & _ & Hres).
  exists n. rewrite s_mops_app.
  destruct res as [m|er m].
  2: { injection Hm as <- <- _ _. split; [exact HL2|]. unfold MergeState. cbn [k_merge]. left. left. reflexivity. }
  destruct Hres as ((Hwf & Hpo & Hbel & Hall & Hpres) & (Hhint & Hpl) & Hlt & W & HW & HfW).
  assert (Hh1 : hf_recs (fst (hf_close (c_io (d_cfg d)) (ms_hint m))) = hf_recs (ms_hint m))
    by (unfold hf_close; destruct (_ =? _); reflexivity).
  destruct (hf_close (c_io (d_cfg d)) (ms_hint m)) as [h1 ev6]. cbn [fst] in Hh1.
  destruct (h_close_spec (c_io (d_cfg d)) (MData (ms_active_id m)) (ms_active m)) as (A1 & A2 & A3).
  destruct (h_close (c_io (d_cfg d)) (MData (ms_active_id m)) (ms_active m)) as [a1 ev7]. cbn [fst] in *.
  pose proof (ms_close_older_spec (c_io (d_cfg d)) (ms_older m)) as Hcl.
  destruct (ms_close_older (c_io (d_cfg d)) (ms_older m)) as [o1 ev8]. cbn [fst] in Hcl.
  destruct (db_sync d2) as [d3 evS] eqn:Hsy.
  injection Hm as <- <- <- _.
  (* the final flush of the active file is a Sync operation on the state the scan left *)
  enough (HG2 : G d2 (mkDisk (k_data k) (k_hint k)
                        (Some (mkMdir (older_set o1 (ms_active_id m) a1) (Some h1) (Some mid))))
                  (s_mops (s_mops M pro) (concat (firstn n sched)))).
  { assert (Hst : step (d2, mkDisk (k_data k) (k_hint k)
                        (Some (mkMdir (older_set o1 (ms_active_id m) a1) (Some h1) (Some mid)))) OpSync
                  = ((d3, mkDisk (k_data k) (k_hint k)
                        (Some (mkMdir (older_set o1 (ms_active_id m) a1) (Some h1) (Some mid)))), RErr None, evS))
      by (cbn [step]; rewrite Hsy; reflexivity).
    exact (proj1 (G_plain _ _ _ OpSync _ _ _ _ HG2 I Hst)). }
  split; [exact HL2|].
  (* what the rewritten files denote *)
  set (M0 := s_apply_recs [] (map fst (ms_recs m))).
  pose proof (closed_ids_below _ _ _ Hcl Hbel) as Hbo.
  assert (Hrecs_of : recs_of (o1 ++ [(ms_active_id m, a1)]) = ms_recs m).
  { rewrite recs_of_app, recs_of_single, (closed_recs_of _ _ Hcl), A1. reflexivity. }
  assert (Hmd : merge_dir_ok (mkMdir (older_set o1 (ms_active_id m) a1) (Some h1) (Some mid)) mid M0).
  { exists (ms_active_id m + 1), h1. cbn [m_marker m_hint m_files].
    rewrite (older_set_append o1 (ms_active_id m) a1 Hbo).
    split; [reflexivity|]. split; [reflexivity|]. split; [lia|]. split; [lia|].
    split; [|split; [|split]].
    + split; [apply ids_below_asc_app; exact Hbo|]. split.
      * apply Forall_app. split.
        -- apply (closed_file_ok _ _ Hcl). intros id f Hin. rewrite Forall_forall in Hall. exact (Hall _ Hin).
        -- constructor; [|constructor]. split; [|split]; cbn [fst snd].
           ++ intros r p Hrp. rewrite A1 in Hrp. rewrite A2. apply (Hwf r p). exact Hrp.
           ++ eapply pos_ok_same; eassumption.
           ++ congruence.
      * intros x. rewrite (older_get_app_last _ _ _ _ Hbo). destruct (x =? ms_active_id m) eqn:E.
        -- split; [lia|discriminate].
        -- split.
           ++ intros Hne. assert (Hx : x < ms_active_id m \/ ms_active_id m < x) by lia. destruct Hx as [Hx|Hx]; [lia|].
              exfalso. apply Hne. apply (closed_get _ _ x Hcl).
              clear - Hbel Hx. induction (ms_older m) as [|[i g] l IH]; cbn in *; [reflexivity|].
              destruct Hbel as (H1 & _ & H3). destruct (i =? x) eqn:E; [lia|auto].
           ++ intros Hx Hnone. apply (closed_get _ _ x Hcl) in Hnone. apply (Hpres x); [lia|exact Hnone].
    + rewrite Hrecs_of, Hh1. exact Hhint.
    + rewrite Hrecs_of. exact Hpl.
    + rewrite files_log_recs, Hrecs_of. reflexivity. }
  unfold MergeState. cbn [k_merge]. right.
  destruct HS2 as [S0 S1 S2 S3 S4 S5].
  exists mid, M0, (log d1), (Xp ++ X). split; [exact Hmd|]. split; [unfold mid; lia|]. split; [exact S3|].
  split; [exact S1|]. split; [exact S2|].
  rewrite (sreplay_plain _ M0 [] S4). f_equal.
  (* pointwise: a key the racing calls touched is decided by them; an untouched key was merged as in the
     sequential merge of the snapshot *)
  set (Mf := s_mops (s_mops M pro) (concat (firstn n sched))) in *.
  pose proof HL2 as [(HI2 & _ & _ & HR2 & Hm2) Ht2].
  assert (HMf : Mf = s_apply_recs M (Xp ++ X)).
  { rewrite <- Hm2, S1, sreplay_app. destruct HL1 as [(_ & _ & _ & _ & Hm1) Ht1].
    assert (Hsr1 : sreplay [] [] (log d1) = (M, [])).
    { destruct (sreplay [] [] (log d1)) as [aa bb]. cbn [fst snd] in Hm1, Ht1. subst. reflexivity. }
    rewrite Hsr1. cbn [fst snd]. rewrite (sreplay_plain _ M [] S4). reflexivity. }
  assert (HsM : sorted M) by exact (R_sorted d M HI HR).
  assert (HsM0 : sorted M0) by (apply s_apply_recs_sorted; constructor).
  apply sorted_ext; [apply s_apply_recs_sorted; exact HsM0|exact (R_sorted d2 Mf HI2 HR2)|].
  intros key. rewrite HMf, (apply_recs_get _ M0 key HsM0), (apply_recs_get _ M key HsM).
  destruct (haskey (Xp ++ X) key) eqn:Ehk; [apply lastop_haskey; exact Ehk|].
  rewrite !(lastop_nokey _ _ _ Ehk).
  destruct (merged_log_denotes d1 M order HI1 P1 HR1 Hemp1) as (Hlty & Hden & _).
  { intros fid f Hg. apply (Hord eq_refl). exact (Hold1 _ _ Hg). }
  assert (HWty : Forall (fun r => (r_type r =? rt_Deleted) = false) (map fst (ms_recs m))).
  { rewrite Forall_map. eapply Forall_impl; [|exact Hpl]. intros rp [_ Hty]. exact Hty. }
  assert (Hmty : Forall (fun r => (r_type r =? rt_Deleted) = false) (merged_log d1 order)).
  { apply Forall_forall. intros r0 Hin. unfold merged_log in Hin. apply in_concat in Hin. destruct Hin as (l & Hl & Hr0).
    apply in_map_iff in Hl. destruct Hl as (fid & <- & _). unfold rewritten in Hr0.
    apply in_map_iff in Hr0. destruct Hr0 as ([r p] & <- & Hf). apply filter_In in Hf. destruct Hf as [Hf1 Hf2].
    cbn [fst plainify r_type]. exact (Hlty fid (r, p) Hf1 Hf2). }
  unfold M0. rewrite (apply_puts_get _ [] key HWty). rewrite <- Hden, (apply_puts_get _ [] key Hmty).
  rewrite HW. unfold m0, ms_recs. cbn [ms_older ms_active recs_of map concat app]. rewrite Ha0. cbn [map app].
  rewrite <- (lastv_filter W), (HfW key Ehk), lastv_filter. reflexivity.
Qed.
