(* EngineMergeDurable.v — when Merge writes its finished-marker, every data file of the database is
   flushed: the files rotated away (by Merge itself, by racing writers, by batches) were flushed at
   rotation, and Merge flushes the active file as its last step before the marker.  Hence every record
   the scan's liveness tests may have relied on (written by racing clients while the scan ran) is
   durable when the merge output becomes adoptable: a power loss after the marker cannot take away a
   new version whose predecessor the merge has dropped. *)
From Coq Require Import ZArith Lia ZifyN ZifyNat ZifyBool.
From KV Require Import Bytes GenConsts Chunk Record Engine Script BytesLemmas AMapLemmas
  EngineFiles EngineInv EngineBatch EngineRefine EngineLog EngineRecover EngineSync EngineCrash
  EngineOpen EngineAdopt EngineMerge EngineKeep EngineMergeRun EngineMergeRace EngineSyncMerge.
Open Scope N_scope.

Lemma db_put_sync_any d k v d' e evs : InvF d -> SyncInv d -> db_put d k v = (d', e, evs) -> SyncInv d'.
Proof.
  intros HF HS H. destruct e as [er|]; [|exact (proj1 (db_put_sync _ _ _ _ _ HF HS H))].
  unfold db_put in H. destruct (len k =? 0); [injection H as <- _ _; exact HS|].
  destruct (db_append _ _) as [[d1 p] ev1]. destruct (idx_put _ _ _) as [ix old]. discriminate.
Qed.

Lemma db_delete_sync_any d k d' e evs : InvF d -> SyncInv d -> db_delete d k = (d', e, evs) -> SyncInv d'.
Proof.
  intros HF HS H. destruct e as [er|]; [|exact (proj1 (db_delete_sync _ _ _ _ HF HS H))].
  unfold db_delete in H. destruct (len k =? 0); [injection H as <- _ _; exact HS|].
  destruct (idx_get (d_index d) k) as [p0|]; [|discriminate].
  destruct (db_append d (mkRec rt_Deleted k [] 0)) as [[d1 p] ev1] eqn:Happ.
  destruct (db_append_sync d (mkRec rt_Deleted k [] 0) d1 p ev1 HF HS eq_refl Happ) as (HS1 & _).
  cbn [add_reclaim set_counters d_index] in H.
  destruct (idx_del (d_index d1) k) as [ix old]. destruct old as [o|]; [discriminate|]. injection H as <- _ _.
  eapply SyncInv_ext; [| | |exact HS1]; reflexivity.
Qed.

Lemma run_mops_sync : forall ops d M d' evs,
  LogInv d M -> SyncInv d -> run_mops d ops = (d', evs) -> SyncInv d'.
Proof.
  induction ops as [|[k v|k] ops IH]; intros d M d' evs HL HS Hr; cbn [run_mops] in Hr.
  - injection Hr as <- _. exact HS.
  - destruct (db_put d k v) as [[d1 e1] ev1] eqn:Hp. destruct (run_mops d1 ops) as [d2 ev2] eqn:Hr2. injection Hr as <- _.
    destruct (db_put_race 0 d M k v d1 e1 ev1 HL Hp) as [HL1 _].
    pose proof HL as [(HI & _) _].
    eapply IH; [exact HL1|eapply db_put_sync_any; [exact (proj1 HI)|exact HS|exact Hp]|exact Hr2].
  - destruct (db_delete d k) as [[d1 e1] ev1] eqn:Hp. destruct (run_mops d1 ops) as [d2 ev2] eqn:Hr2. injection Hr as <- _.
    destruct (db_delete_race 0 d M k d1 e1 ev1 HL Hp) as [HL1 _].
    pose proof HL as [(HI & _) _].
    eapply IH; [exact HL1|eapply db_delete_sync_any; [exact (proj1 HI)|exact HS|exact Hp]|exact Hr2].
Qed.

Lemma merge_file_i_sync c fid nm : forall rs d M m sched d' res sched' evs,
  LogInv d M -> SyncInv d -> merge_file_i c fid nm d m rs sched = (d', res, sched', evs) ->
  SyncInv d' /\ exists M', LogInv d' M'.
Proof.
  induction rs as [|[r p] rs IH]; intros d M m sched d' res sched' evs HL HS H; cbn [merge_file_i] in H.
  - injection H as <- _ _ _. split; [exact HS|exists M; exact HL].
  - destruct (run_mops d (hd [] sched)) as [d1 ev0] eqn:Hr.
    pose proof (run_mops_sync _ _ _ _ _ HL HS Hr) as HS1.
    destruct (run_mops_race 0 _ _ _ _ _ HL Hr) as [HL1 _].
    destruct (idx_get (d_index d1) (r_key r)) as [q|].
    + destruct ((p_fid q =? fid) && (p_off q =? p_off p) && (p_bid q =? p_bid p)).
      * destruct (ms_append c m _) as [[m1 np] ev1].
        destruct (nm <=? ms_active_id m1); [injection H as <- _ _ _; split; [exact HS1|eexists; exact HL1]|].
        destruct (ms_hint_append c m1 (r_key r) np) as [m2 ev2].
        destruct (merge_file_i c fid nm d1 m2 rs (tl sched)) as [[[d2 res2] s2] ev3] eqn:Hrec. injection H as <- _ _ _.
        eapply IH; eassumption.
      * destruct (merge_file_i c fid nm d1 m rs (tl sched)) as [[[d2 res2] s2] ev3] eqn:Hrec. injection H as <- _ _ _.
        eapply IH; eassumption.
    + destruct (merge_file_i c fid nm d1 m rs (tl sched)) as [[[d2 res2] s2] ev3] eqn:Hrec. injection H as <- _ _ _.
      eapply IH; eassumption.
Qed.

Lemma merge_files_i_sync c nm : forall order d M m sched d' res evs,
  LogInv d M -> SyncInv d -> merge_files_i c d order nm m sched = (d', res, evs) -> SyncInv d'.
Proof.
  induction order as [|fid order IH]; intros d M m sched d' res evs HL HS H; cbn [merge_files_i] in H.
  - injection H as <- _ _. exact HS.
  - pose proof HL as [(HI & HO & HP & HR & Hmm) Ht].
    destruct (older_get (d_older d) fid) as [f|] eqn:Hg; [|eapply IH; eassumption].
    pose proof (scan_touch_same (c_io c) (FData fid) f) as [Hr Hs]. pose proof (scan_touch_dur (c_io c) (FData fid) f) as Hd.
    destruct (scan_touch (c_io c) (FData fid) f) as [f' ev0]. cbn [fst] in Hr, Hs, Hd.
    set (d1 := set_older d (older_set (d_older d) fid f')) in *.
    destruct (touch_older_spec d fid f f' (proj1 HI) Hg Hr Hs) as [HFd1 Hsame]. fold d1 in HFd1, Hsame.
    assert (Hsf : same_files d d1).
    { split; [reflexivity|]. split; [reflexivity|]. unfold d1. cbn [set_older d_older].
      eapply older_set_replace; [exact HO|exact Hg|exact Hr]. }
    assert (HL1 : LogInv d1 M).
    { apply (LogInv_same_files d d1 M HL); [eapply Inv_same; eassumption|eapply R_same; eassumption|exact Hsf]. }
    assert (HS1 : SyncInv d1).
    { destruct HS as (A & B & C). unfold SyncInv, unflushed_plain, older_flushed, d1. cbn [set_older d_active d_older d_bytes_write].
      split; [exact A|]. split; [exact B|]. eapply older_set_flushed_touch; eassumption. }
    destruct (merge_file_i c fid nm d1 m (lf_recs f') sched) as [[[d2 res1] sched1] ev1] eqn:Hmf.
    destruct (merge_file_i_sync c fid nm _ _ _ _ _ _ _ _ _ HL1 HS1 Hmf) as [HS2 [M2 HL2]].
    destruct res1 as [m1|e1 m1].
    + destruct (merge_files_i c d2 order nm m1 sched1) as [[d3 res2] ev2] eqn:Hrest. injection H as <- _ _.
      eapply IH; eassumption.
    + injection H as <- _ _. exact HS2.
Qed.

(* Merge with racing writers, finished (the marker is written): every data file is flushed *)
Theorem db_merge_i_durable d k M order pro sched d' k' evs :
  LogInv d M -> SyncInv d -> db_merge_i d k order pro sched = (d', k', None, evs) ->
  flushed (d_active d') /\ older_flushed d'.
Proof.
  intros HL HS Hm. pose proof HL as [(HI & HO & HP & HR & Hmm) Ht].
  unfold db_merge_i in Hm.
  destruct (db_rotate d) as [d1 ev1] eqn:Hrot.
  destruct (db_rotate_spec d d1 ev1 (proj1 HI) Hrot) as (HF1 & Hrec1 & Hix1 & Hcfg1 & _).
  assert (Hs1 : same_recs d d1) by (split; assumption).
  assert (HI1 : Inv d1) by (eapply Inv_same; eassumption).
  assert (HR1 : R d1 M) by (eapply R_same; eassumption).
  destruct (db_rotate_log _ _ _ (proj1 HI) HO HP Hrot) as (L1 & O1 & P1).
  assert (HL1 : LogInv d1 M) by (apply (LogInv_keep d d1 M HL HI1 HR1 L1 O1 P1)).
  destruct (db_rotate_sync _ _ _ (proj2 (proj2 HS)) Hrot) as (HS1 & _ & _).
  destruct (run_mops d1 pro) as [d1p evp] eqn:Hpro.
  pose proof (run_mops_sync _ _ _ _ _ HL1 HS1 Hpro) as HSp.
  destruct (run_mops_race 0 _ _ _ _ _ HL1 Hpro) as [HLp _].
  destruct (h_open (c_io (d_cfg d)) (MData 0) false lf_empty) as [a0 ev3].
  destruct (hf_open_new (c_io (d_cfg d))) as [h0 ev4].
  destruct (merge_files_i (d_cfg d) d1p order (d_active_id d1) (mkMs 0 a0 [] h0) sched) as [[d2 res] ev5] eqn:Hmf.
  pose proof (merge_files_i_sync _ _ _ _ _ _ _ _ _ _ HLp HSp Hmf) as HS2.
  destruct res as [m|er m]; [|discriminate].
  destruct (hf_close _ _) as [h1 ev6]. destruct (h_close _ _ _) as [a1 ev7]. destruct (ms_close_older _ _) as [o1 ev8].
  destruct (db_sync d2) as [d3 evS] eqn:Hsy.
  injection Hm as <- _ _.
  split; [exact (db_sync_flushes _ _ _ Hsy)|].
  unfold db_sync in Hsy. destruct (h_sync _ _) as [a ev]. injection Hsy as <- _.
  exact (proj2 (proj2 HS2)).
Qed.

(* the sequential Merge is the racing Merge with nobody racing; stated directly *)
Theorem db_merge_durable d k order d' k' evs :
  InvF d -> SyncInv d -> db_merge d k order = (d', k', None, evs) ->
  flushed (d_active d') /\ older_flushed d'.
Proof.
  intros HF HS Hm. destruct (db_merge_sync _ _ _ _ _ _ _ HF HS Hm) as [HS' _].
  split; [|exact (proj2 (proj2 HS'))].
  unfold db_merge in Hm.
  destruct (db_rotate d) as [d1 ev1]. destruct (h_open _ _ _ _) as [a0 ev3]. destruct (hf_open_new _) as [h0 ev4].
  destruct (merge_files _ _ _ _ _) as [[d2 res] ev5].
  destruct res as [m|er m]; [|discriminate].
  destruct (hf_close _ _) as [h1 ev6]. destruct (h_close _ _ _) as [a1 ev7]. destruct (ms_close_older _ _) as [o1 ev8].
  destruct (db_sync d2) as [d3 evS] eqn:Hsy. injection Hm as <- _ _.
  exact (db_sync_flushes _ _ _ Hsy).
Qed.
