(* FramingProofs.v — writeToBuf / DataReader.next / readToBuf: every record, at every
   offset, of every length, reads back; positions and sizes are exact. *)
From Coq Require Import ZArith Lia ZifyN ZifyNat ZifyBool.
From KV Require Import Bytes GenConsts Chunk BytesLemmas ChunkProofs.
Open Scope N_scope.
Ltac Zify.zify_post_hook ::= Z.div_mod_to_equations.

Notation BS := 32768 (only parsing).

Lemma take_app_ge {A} (a b : list A) n : len a <= n -> take n (a ++ b) = a ++ take (n - len a) b.
Proof. intros H. replace n with (len a + (n - len a)) at 1 by lia.
  rewrite take_add, take_app_exact, drop_app_exact by reflexivity. reflexivity. Qed.

(* the reader's eager skip of a block tail too short for a header = the writer's lazy padding *)
Definition norm (bid off : N) : N * N := if blockSize <=? off + chunkHeaderSize then (bid + 1, 0) else (bid, off).

(* chunks after the first one: ceil(m / (BS-7)) *)
Definition nchunks_rest (m : N) : N := (m + (blockSize - chunkHeaderSize) - 1) / (blockSize - chunkHeaderSize).

Lemma nchunks_unfold room n :
  nchunks room n = if n =? 0 then 0 else if n <=? room then 1 else 1 + nchunks_rest (n - room).
Proof. unfold nchunks, nchunks_rest. destruct (n =? 0); [reflexivity|]. destruct (n <=? room); reflexivity. Qed.

Lemma chunks_nil cf first room : chunks cf first room [] = [].
Proof. destruct cf; reflexivity. Qed.

Lemma len_chunks_rest cf (data : bytes) :
  (length data < cf)%nat ->
  len (chunks cf false (blockSize - chunkHeaderSize) data) = nchunks_rest (len data).
Proof.
  revert data; induction cf as [|cf IH]; intros data Hf; [lia|].
  cbn [chunks]. unfold nchunks_rest in *. rewrite blockSize_val, chunkHeaderSize_val in *.
  destruct (len data =? 0) eqn:E0.
  - rewrite len_nil. assert (len data = 0) by lia. clear IH Hf E0. lia.
  - rewrite len_cons.
    destruct (len data <=? 32768 - 7) eqn:E1.
    + assert (Hd : drop (len data) data = []) by (apply drop_all; lia).
      rewrite Hd, chunks_nil, len_nil. clear IH Hf Hd. lia.
    + rewrite IH.
      * rewrite len_drop. lia.
      * assert (Hl := len_length (drop (32768 - 7) data)). rewrite len_drop in Hl.
        assert (Hl2 := len_length data). lia.
Qed.

Lemma len_chunks cf first room (data : bytes) :
  (length data < cf)%nat -> 0 < room ->
  len (chunks cf first room data) = nchunks room (len data).
Proof.
  intros Hf Hr. destruct cf as [|cf]; [lia|]. cbn [chunks]. rewrite nchunks_unfold.
  destruct (len data =? 0) eqn:E0; [reflexivity|]. rewrite len_cons.
  destruct (len data <=? room) eqn:E1.
  - assert (Hd : drop (len data) data = []) by (apply drop_all; lia).
    rewrite Hd, chunks_nil, len_nil. clear Hf Hd. lia.
  - rewrite len_chunks_rest.
    + rewrite len_drop. lia.
    + assert (Hl := len_length (drop room data)). rewrite len_drop in Hl.
      assert (Hl2 := len_length data). lia.
Qed.

Section WithCrc.
Variable crc : bytes -> N.
Hypothesis crc_u32 : forall b, crc b < 4294967296.

Notation enc_chunk := (enc_chunk crc).
Notation read_chunk := (read_chunk crc).
Definition enc_all (cs : list (N * bytes)) : bytes := concat (map enc_chunk cs).

Lemma enc_all_cons c cs : enc_all (c :: cs) = enc_chunk c ++ enc_all cs.
Proof. reflexivity. Qed.

(* a chunk that lies inside one block is found by the block-wise reader *)
Lemma read_chunk_enc pre ty p post bid off :
  len pre = bid * blockSize + off -> off + chunkHeaderSize + len p <= blockSize ->
  read_chunk (pre ++ enc_chunk (ty, p) ++ post) (len (pre ++ enc_chunk (ty, p) ++ post)) bid off
  = CData p ty.
Proof.
  rewrite blockSize_val, chunkHeaderSize_val. intros Hpre Hfit.
  unfold Chunk.read_chunk. rewrite blockSize_val.
  set (f := pre ++ enc_chunk (ty, p) ++ post).
  assert (Hf : len f = len pre + 7 + len p + len post).
  { unfold f. rewrite !len_app, (len_enc_chunk crc). cbn [snd]. lia. }
  destruct (len f <=? bid * 32768) eqn:E1; [lia|].
  set (size := if len f - bid * 32768 <=? 32768 then len f - bid * 32768 else 32768).
  assert (Hsize : off + 7 + len p <= size /\ size <= 32768).
  { unfold size. destruct (len f - bid * 32768 <=? 32768) eqn:E; lia. }
  destruct (size <=? off) eqn:E2; [lia|].
  assert (Hc : slice (bid * 32768 + off) (bid * 32768 + size) f
               = enc_chunk (ty, p) ++ take (size - off - (7 + len p)) post).
  { rewrite slice_eq. rewrite <- Hpre. unfold f. rewrite drop_app_exact by reflexivity.
    rewrite take_app_ge by (rewrite (len_enc_chunk crc); cbn [snd]; lia).
    rewrite (len_enc_chunk crc). cbn [snd]. f_equal. f_equal. lia. }
  rewrite Hc, (decode_enc crc crc_u32) by lia. reflexivity.
Qed.

Lemma is_last_chunk_type (fin first : bool) :
  is_last (if fin then (if first then ct_Full else ct_Last) else (if first then ct_First else ct_Middle)) = fin.
Proof. destruct fin, first; reflexivity. Qed.

(* the heart of C11: the chunk sequence written for one record is read back as that record,
   from any start offset that leaves room for a header, for any data length, whatever
   precedes and follows it in the file *)
Lemma reader_chunks : forall cf (data : bytes) first pre post rf fid bid0 off0 bid off cnt acc,
  (length data < cf)%nat -> 0 < len data ->
  len pre = bid * blockSize + off -> off + chunkHeaderSize < blockSize ->
  (N.to_nat (len (pre ++ enc_all (chunks cf first (blockSize - off - chunkHeaderSize) data) ++ post) / blockSize) + 2
     <= rf + N.to_nat bid)%nat ->
  reader_next_fuel crc rf
    (pre ++ enc_all (chunks cf first (blockSize - off - chunkHeaderSize) data) ++ post)
    (len (pre ++ enc_all (chunks cf first (blockSize - off - chunkHeaderSize) data) ++ post))
    fid bid0 off0 bid off cnt acc
  = let cs := chunks cf first (blockSize - off - chunkHeaderSize) data in
    let e := len pre + len (enc_all cs) in
    Ok (acc ++ data,
        mkPos fid bid0 off0 ((cnt + len cs) * chunkHeaderSize + len (acc ++ data)),
        fst (norm (e / blockSize) (e mod blockSize)), snd (norm (e / blockSize) (e mod blockSize))).
Proof.
  induction cf as [|cf IH]; intros data first pre post rf fid bid0 off0 bid off cnt acc
    Hfuel Hpos Hpre Hoff Hrf; [lia|].
  cbv zeta. cbn [chunks]. cbn [chunks] in Hrf.
  destruct (len data =? 0) eqn:E0; [lia|].
  set (room := blockSize - off - chunkHeaderSize) in *.
  set (w := if len data <=? room then len data else room) in *.
  assert (Hroom : room = 32768 - off - 7) by (unfold room; rewrite blockSize_val, chunkHeaderSize_val; reflexivity).
  rewrite blockSize_val in Hoff, Hpre. rewrite chunkHeaderSize_val in Hoff.
  assert (Hw : 0 < w /\ w <= len data /\ w <= room).
  { unfold w; destruct (len data <=? room) eqn:E; lia. }
  set (ty := if w =? len data then if first then ct_Full else ct_Last
             else if first then ct_First else ct_Middle) in *.
  set (rest := chunks cf false (blockSize - chunkHeaderSize) (drop w data)) in *.
  rewrite enc_all_cons in *. rewrite <- app_assoc in *.
  set (f := pre ++ enc_chunk (ty, take w data) ++ enc_all rest ++ post) in *.
  assert (Htk : len (take w data) = w) by (apply len_take_le; lia).
  assert (Hbid : bid <= len f / blockSize).
  { unfold f. rewrite !len_app, blockSize_val. lia. }
  destruct rf as [|rf]; [lia|].
  cbn [reader_next_fuel].
  unfold f at 1 2. rewrite read_chunk_enc
    by (rewrite ?blockSize_val, ?chunkHeaderSize_val, ?Htk; lia).
  fold f. unfold ty at 1. rewrite is_last_chunk_type.
  destruct (w =? len data) eqn:Efin.
  - (* final chunk *)
    assert (Hwd : w = len data) by lia.
    assert (Hdrop : drop w data = []) by (apply drop_all; lia).
    assert (Hrest : rest = []) by (unfold rest; rewrite Hdrop; apply chunks_nil).
    rewrite Hrest in *. cbn [enc_all map concat] in *. rewrite ?app_nil_r in *.
    rewrite (take_all data w) in * by lia.
    rewrite (len_enc_chunk crc). cbn [snd].
    replace (len [(ty, data)]) with 1 by reflexivity.
    rewrite blockSize_val, chunkHeaderSize_val.
    assert (Hn : norm ((len pre + (7 + len data)) / 32768) ((len pre + (7 + len data)) mod 32768)
                 = if 32768 <=? off + 7 + len data + 7 then (bid + 1, 0) else (bid, off + 7 + len data)).
    { unfold norm. rewrite blockSize_val, chunkHeaderSize_val.
      destruct (32768 <=? off + 7 + len data + 7) eqn:E1;
        destruct (32768 <=? (len pre + (7 + len data)) mod 32768 + 7) eqn:E2;
        clear - Hpre Hoff Hpos Hw Hwd Hroom E1 E2; f_equal; lia. }
    rewrite Hn. replace (cnt + 1) with (cnt + 1) by reflexivity.
    destruct (32768 <=? off + 7 + len data + 7); reflexivity.
  - (* the chunk fills the block; continue at offset 0 of the next block *)
    assert (Hwr : w = room) by (unfold w in *; destruct (len data <=? room) eqn:E; lia).
    set (pre' := pre ++ enc_chunk (ty, take w data)).
    assert (Hpre' : len pre' = (bid + 1) * blockSize + 0).
    { unfold pre'. rewrite len_app, (len_enc_chunk crc). cbn [snd]. rewrite Htk, blockSize_val. lia. }
    assert (Hf' : f = pre' ++ enc_all (chunks cf false (blockSize - 0 - chunkHeaderSize) (drop w data)) ++ post).
    { unfold f, pre', rest. rewrite <- app_assoc. rewrite N.sub_0_r. reflexivity. }
    assert (Hlen_drop : 0 < len (drop w data)) by (rewrite len_drop; lia).
    assert (Hfuel' : (length (drop w data) < cf)%nat).
    { assert (Hl := len_length (drop w data)). rewrite len_drop in Hl.
      assert (Hl2 := len_length data). lia. }
    rewrite Hf'.
    rewrite (IH (drop w data) false pre' post rf fid bid0 off0 (bid + 1) 0 (cnt + 1) (acc ++ take w data)
               Hfuel' Hlen_drop Hpre').
    + cbv zeta. rewrite N.sub_0_r. fold rest.
      rewrite <- app_assoc, take_drop.
      assert (He : len pre' + len (enc_all rest) = len pre + len (enc_chunk (ty, take w data) ++ enc_all rest)).
      { unfold pre'. rewrite !len_app. lia. }
      rewrite He. rewrite len_cons.
      replace (cnt + 1 + len rest) with (cnt + (len rest + 1)) by lia. reflexivity.
    + rewrite blockSize_val, chunkHeaderSize_val. lia.
    + rewrite <- Hf'. lia.
Qed.


(* the same for the random reader (readToBuf) *)
Lemma read_at_chunks : forall cf (data : bytes) first pre post rf bid off acc,
  (length data < cf)%nat -> 0 < len data ->
  len pre = bid * blockSize + off -> off + chunkHeaderSize < blockSize ->
  (N.to_nat (len (pre ++ enc_all (chunks cf first (blockSize - off - chunkHeaderSize) data) ++ post) / blockSize) + 2
     <= rf + N.to_nat bid)%nat ->
  read_at_fuel crc rf
    (pre ++ enc_all (chunks cf first (blockSize - off - chunkHeaderSize) data) ++ post)
    (len (pre ++ enc_all (chunks cf first (blockSize - off - chunkHeaderSize) data) ++ post))
    bid off acc
  = Ok (acc ++ data).
Proof.
  induction cf as [|cf IH]; intros data first pre post rf bid off acc
    Hfuel Hpos Hpre Hoff Hrf; [lia|].
  cbn [chunks]. cbn [chunks] in Hrf.
  destruct (len data =? 0) eqn:E0; [lia|].
  set (room := blockSize - off - chunkHeaderSize) in *.
  set (w := if len data <=? room then len data else room) in *.
  assert (Hroom : room = 32768 - off - 7) by (unfold room; rewrite blockSize_val, chunkHeaderSize_val; reflexivity).
  rewrite blockSize_val in Hoff, Hpre. rewrite chunkHeaderSize_val in Hoff.
  assert (Hw : 0 < w /\ w <= len data /\ w <= room).
  { unfold w; destruct (len data <=? room) eqn:E; lia. }
  set (ty := if w =? len data then if first then ct_Full else ct_Last
             else if first then ct_First else ct_Middle) in *.
  set (rest := chunks cf false (blockSize - chunkHeaderSize) (drop w data)) in *.
  rewrite enc_all_cons in *. rewrite <- app_assoc in *.
  set (f := pre ++ enc_chunk (ty, take w data) ++ enc_all rest ++ post) in *.
  assert (Htk : len (take w data) = w) by (apply len_take_le; lia).
  assert (Hbid : bid <= len f / blockSize).
  { unfold f. rewrite !len_app, blockSize_val. lia. }
  destruct rf as [|rf]; [lia|].
  cbn [read_at_fuel].
  unfold f at 1 2. rewrite read_chunk_enc
    by (rewrite ?blockSize_val, ?chunkHeaderSize_val, ?Htk; lia).
  fold f. unfold ty at 1. rewrite is_last_chunk_type.
  destruct (w =? len data) eqn:Efin.
  - rewrite (take_all data w) by lia. reflexivity.
  - assert (Hwr : w = room) by (unfold w in *; destruct (len data <=? room) eqn:E; lia).
    set (pre' := pre ++ enc_chunk (ty, take w data)).
    assert (Hpre' : len pre' = (bid + 1) * blockSize + 0).
    { unfold pre'. rewrite len_app, (len_enc_chunk crc). cbn [snd]. rewrite Htk, blockSize_val. lia. }
    assert (Hf' : f = pre' ++ enc_all (chunks cf false (blockSize - 0 - chunkHeaderSize) (drop w data)) ++ post).
    { unfold f, pre', rest. rewrite <- app_assoc. rewrite N.sub_0_r. reflexivity. }
    assert (Hlen_drop : 0 < len (drop w data)) by (rewrite len_drop; lia).
    assert (Hfuel' : (length (drop w data) < cf)%nat).
    { assert (Hl := len_length (drop w data)). rewrite len_drop in Hl.
      assert (Hl2 := len_length data). lia. }
    rewrite Hf'.
    rewrite (IH (drop w data) false pre' post rf (bid + 1) 0 (acc ++ take w data)
               Hfuel' Hlen_drop Hpre').
    + rewrite <- app_assoc, take_drop. reflexivity.
    + rewrite blockSize_val, chunkHeaderSize_val. lia.
    + rewrite <- Hf'. lia.
Qed.

(* bytes occupied by a chunk sequence: one header per chunk plus the data *)
Lemma len_enc_all_chunks : forall cf (data : bytes) first room,
  (length data < cf)%nat -> 0 < room ->
  len (enc_all (chunks cf first room data)) = len (chunks cf first room data) * chunkHeaderSize + len data.
Proof.
  rewrite chunkHeaderSize_val.
  induction cf as [|cf IH]; intros data first room Hf Hr; [lia|].
  cbn [chunks]. destruct (len data =? 0) eqn:E0.
  - cbn [enc_all map concat len]. clear IH. lia.
  - set (w := if len data <=? room then len data else room).
    assert (Hw : 0 < w /\ w <= len data) by (unfold w; destruct (len data <=? room) eqn:E; lia).
    rewrite enc_all_cons, len_app, len_cons, (len_enc_chunk crc). cbn [snd].
    destruct (N.eq_dec w (len data)) as [Hwd|Hwd].
    + rewrite (drop_all data w) by lia. rewrite chunks_nil. cbn [enc_all map concat len].
      rewrite len_take_le by lia. clear IH. lia.
    + rewrite IH.
      * rewrite len_take_le, len_drop by lia. lia.
      * assert (Hl := len_length (drop w data)). rewrite len_drop in Hl.
        assert (Hl2 := len_length data). lia.
      * rewrite blockSize_val, chunkHeaderSize_val. lia.
Qed.

End WithCrc.
