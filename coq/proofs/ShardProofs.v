(* ShardProofs.v — index/sharded_index.go: the shard count (nextPowerOfTwo) and the point operations
   of the sharded index refine one ordered map, whatever the assignment of keys to shards (C14, C10). *)
From Coq Require Import ZArith Lia Sorted.
From KV Require Import Bytes GenConsts Chunk Record Engine Index BytesLemmas AMapLemmas.
Import ListNotations.

(* ---- the shard count ----------------------------------------------------------------------------- *)
Lemma maxShardCap_val : maxShardCap = 1024%N. Proof. reflexivity. Qed.

Lemma lor_ge a b : (0 <= a)%Z -> (0 <= b)%Z -> (a <= Z.lor a b)%Z.
Proof.
  intros Ha Hb. apply (Z.ldiff_le a (Z.lor a b)); [apply Z.lor_nonneg; split; assumption|].
  apply Z.bits_inj'. intros n Hn. rewrite Z.ldiff_spec, Z.lor_spec, Z.bits_0.
  destruct (Z.testbit a n), (Z.testbit b n); reflexivity.
Qed.
Lemma smear_ge n k : (0 <= n)%Z -> (n <= Z.lor n (Z.shiftr n k))%Z /\ (0 <= Z.lor n (Z.shiftr n k))%Z.
Proof.
  intros Hn. assert (0 <= Z.shiftr n k)%Z by (apply Z.shiftr_nonneg; exact Hn).
  split; [apply lor_ge; assumption|apply Z.lor_nonneg; split; assumption].
Qed.

Definition pow2_le_1024 (n : Z) : bool := existsb (fun k => Z.eqb n (2 ^ k)) [0; 1; 2; 3; 4; 5; 6; 7; 8; 9; 10]%Z.
Definition npt_ok (cap : Z) : bool :=
  let n := next_power_of_two cap in pow2_le_1024 n && ((cap <=? n) || (n =? 1024))%Z.

Lemma npt_small_table : forallb (fun i => npt_ok (Z.of_nat i)) (seq 0 1030) = true.
Proof. vm_compute. reflexivity. Qed.

Lemma npt_ok_all cap : npt_ok cap = true.
Proof.
  destruct (Z_lt_le_dec cap 1) as [Hlt|Hge].
  - unfold npt_ok, next_power_of_two. destruct (cap <? 1)%Z eqn:E; [|apply Z.ltb_ge in E; lia].
    cbn. replace (cap <=? 1)%Z with true by (symmetry; apply Z.leb_le; lia). reflexivity.
  - destruct (Z_lt_le_dec cap 1030) as [Hs|Hb].
    + pose proof npt_small_table as T. rewrite forallb_forall in T.
      specialize (T (Z.to_nat cap)). rewrite Z2Nat.id in T by lia. apply T. apply in_seq. lia.
    + unfold npt_ok, next_power_of_two. destruct (cap <? 1)%Z eqn:E; [apply Z.ltb_lt in E; lia|].
      set (n0 := (cap - 1)%Z). assert (H0 : (1029 <= n0)%Z) by (unfold n0; lia).
      destruct (smear_ge n0 1 ltac:(lia)) as [A1 B1]. set (n1 := Z.lor n0 (Z.shiftr n0 1)) in *.
      destruct (smear_ge n1 2 B1) as [A2 B2]. set (n2 := Z.lor n1 (Z.shiftr n1 2)) in *.
      destruct (smear_ge n2 4 B2) as [A3 B3]. set (n3 := Z.lor n2 (Z.shiftr n2 4)) in *.
      destruct (smear_ge n3 8 B3) as [A4 B4]. set (n4 := Z.lor n3 (Z.shiftr n3 8)) in *.
      destruct (smear_ge n4 16 B4) as [A5 B5]. set (n5 := Z.lor n4 (Z.shiftr n4 16)) in *.
      rewrite maxShardCap_val. change (Z.of_N 1024) with 1024%Z.
      replace (1024 <=? n5)%Z with true by (symmetry; apply Z.leb_le; lia).
      cbv zeta. replace (1024 =? 1024)%Z with true by reflexivity. rewrite orb_true_r. reflexivity.
Qed.

(* for EVERY requested shard count - zero, negative, beyond the maximum - the index has 2^k shards with
   k <= 10, at least as many as requested unless the maximum is reached, and the shard chosen for any
   64-bit hash exists *)
Theorem shard_count_spec (cap : Z) :
  let n := next_power_of_two cap in
  (exists k, (0 <= k <= 10)%Z /\ n = (2 ^ k)%Z) /\ (cap <= n \/ n = 1024)%Z /\
  forall hash, (0 <= shard_of_hash n hash < n)%Z.
Proof.
  cbv zeta. pose proof (npt_ok_all cap) as H. unfold npt_ok in H. apply andb_true_iff in H. destruct H as [Hp Hc].
  assert (Hk : exists k, (0 <= k <= 10)%Z /\ next_power_of_two cap = (2 ^ k)%Z).
  { unfold pow2_le_1024 in Hp. apply existsb_exists in Hp. destruct Hp as (k & Hin & He). apply Z.eqb_eq in He.
    exists k. split; [|exact He]. cbn in Hin. lia. }
  split; [exact Hk|]. split.
  - apply orb_true_iff in Hc. destruct Hc as [Hc|Hc]; [left; apply Z.leb_le; exact Hc|right; apply Z.eqb_eq; exact Hc].
  - intros hash. destruct Hk as (k & Hk & ->). unfold shard_of_hash.
    replace (2 ^ k - 1)%Z with (Z.ones k) by (rewrite Z.ones_equiv; lia).
    rewrite Z.land_ones by lia. apply Z.mod_pos_bound. apply Z.pow_pos_nonneg; lia.
Qed.

Lemma shard_count_positive cap : (0 < Z.to_nat (next_power_of_two cap))%nat.
Proof.
  destruct (shard_count_spec cap) as ((k & Hk & E) & _). rewrite E.
  assert (0 < 2 ^ k)%Z by (apply Z.pow_pos_nonneg; lia). lia.
Qed.

(* ---- filtering an ordered map by a predicate on keys ---------------------------------------------- *)
Section KeyFilter.
Variable Pk : bytes -> bool.
Let P (x : bytes * pos) : bool := Pk (fst x).

Lemma sorted_filter (m : amap pos) : sorted m -> sorted (filter P m).
Proof.
  induction m as [|x m IH]; intros Hs; cbn [filter]; [constructor|].
  destruct (sorted_inv _ _ Hs) as [Hs' Hf]. destruct (P x); [|apply IH; exact Hs'].
  constructor; [apply IH; exact Hs'|]. apply Forall_forall. intros y Hy. apply filter_In in Hy.
  rewrite Forall_forall in Hf. apply Hf. exact (proj1 Hy).
Qed.

Lemma get_filter (m : amap pos) k : sorted m -> amap_get (filter P m) k = if Pk k then amap_get m k else None.
Proof.
  induction m as [|[k0 v0] m IH]; intros Hs; cbn [filter amap_get]; [destruct (Pk k); reflexivity|].
  destruct (sorted_inv _ _ Hs) as [Hs' Hf]. unfold P at 1. cbn [fst].
  destruct (bytes_eqb k k0) eqn:E.
  - apply bytes_eqb_eq in E. subst k0. destruct (Pk k) eqn:Ep.
    + cbn [amap_get]. rewrite bytes_eqb_refl. reflexivity.
    + exact (IH Hs').
  - destruct (Pk k0); [cbn [amap_get]; rewrite E|]; apply IH; exact Hs'.
Qed.

Lemma filter_put (m : amap pos) k v : sorted m ->
  filter P (fst (amap_put m k v)) = if Pk k then fst (amap_put (filter P m) k v) else filter P m.
Proof.
  intros Hs. pose proof (amap_put_sorted m k v Hs) as Hs2. pose proof (sorted_filter m Hs) as Hf.
  destruct (Pk k) eqn:Ep.
  - apply sorted_ext; [apply sorted_filter; exact Hs2|apply amap_put_sorted; exact Hf|].
    intros k'. rewrite (get_filter _ k' Hs2), !amap_get_put, (get_filter _ k' Hs).
    destruct (bytes_eqb k' k) eqn:E; [apply bytes_eqb_eq in E; subst k'; rewrite Ep; reflexivity|reflexivity].
  - apply sorted_ext; [apply sorted_filter; exact Hs2|exact Hf|].
    intros k'. rewrite (get_filter _ k' Hs2), amap_get_put, (get_filter _ k' Hs).
    destruct (bytes_eqb k' k) eqn:E; [apply bytes_eqb_eq in E; subst k'; rewrite Ep; reflexivity|reflexivity].
Qed.

Lemma filter_del (m : amap pos) k : sorted m ->
  filter P (fst (amap_del m k)) = if Pk k then fst (amap_del (filter P m) k) else filter P m.
Proof.
  intros Hs. pose proof (amap_del_sorted m k Hs) as Hs2. pose proof (sorted_filter m Hs) as Hf.
  destruct (Pk k) eqn:Ep.
  - apply sorted_ext; [apply sorted_filter; exact Hs2|apply amap_del_sorted; exact Hf|].
    intros k'. rewrite (get_filter _ k' Hs2), (amap_get_del m k k' Hs), (amap_get_del _ k k' Hf), (get_filter _ k' Hs).
    destruct (bytes_eqb k' k) eqn:E; [destruct (Pk k'); reflexivity|reflexivity].
  - apply sorted_ext; [apply sorted_filter; exact Hs2|exact Hf|].
    intros k'. rewrite (get_filter _ k' Hs2), (amap_get_del m k k' Hs), (get_filter _ k' Hs).
    destruct (bytes_eqb k' k) eqn:E; [apply bytes_eqb_eq in E; subst k'; rewrite Ep; reflexivity|reflexivity].
Qed.
End KeyFilter.

(* ---- the sharded index ---------------------------------------------------------------------------- *)
Section Sharded.
Variable shf : bytes -> nat.
Variable n : nat.
Hypothesis Hn : (0 < n)%nat.

Definition in_shard (i : nat) (k : bytes) : bool := Nat.eqb (shard_ix shf n k) i.
Definition shards (ix : index) : list index := map (fun i => filter (fun x => in_shard i (fst x)) ix) (seq 0 n).

Lemma shards_is_shards_of ix : shards ix = shards_of shf n false ix.
Proof. reflexivity. Qed.

Lemma shard_ix_lt k : (shard_ix shf n k < n)%nat.
Proof. unfold shard_ix. apply Nat.mod_upper_bound. lia. Qed.

Lemma nth_map_seq {A} (f : nat -> A) (d : A) : forall len start i, (i < len)%nat -> nth i (map f (seq start len)) d = f (start + i)%nat.
Proof.
  induction len as [|len IH]; intros start i Hi; [lia|]. cbn [seq map]. destruct i as [|i]; cbn [nth].
  - rewrite Nat.add_0_r. reflexivity.
  - rewrite IH by lia. f_equal. lia.
Qed.
Lemma nth_shards ix i : (i < n)%nat -> nth i (shards ix) [] = filter (fun x => in_shard i (fst x)) ix.
Proof. intros Hi. unfold shards. rewrite nth_map_seq by exact Hi. reflexivity. Qed.

Lemma upd_nth_map_seq (f f' : nat -> index) : forall len start i,
  (i < len)%nat -> (forall j, j <> (start + i)%nat -> f' j = f j) ->
  upd_nth (map f (seq start len)) i (f' (start + i)%nat) = map f' (seq start len).
Proof.
  induction len as [|len IH]; intros start i Hi Hf; [lia|].
  cbn [seq map]. destruct i as [|i]; cbn [upd_nth].
  - rewrite Nat.add_0_r. f_equal. apply map_ext_in. intros j Hj. apply in_seq in Hj. symmetry. apply Hf. lia.
  - rewrite (Hf start) by lia. f_equal.
    replace (start + S i)%nat with (S start + i)%nat by lia. apply IH; [lia|].
    intros j Hj. apply Hf. lia.
Qed.

Lemma sh_get_shards ix k : sorted ix -> sh_get shf n (shards ix) k = idx_get ix k.
Proof.
  intros Hs. unfold sh_get, idx_get. rewrite nth_shards by apply shard_ix_lt.
  rewrite (get_filter (in_shard (shard_ix shf n k)) ix k Hs). unfold in_shard. rewrite Nat.eqb_refl. reflexivity.
Qed.

Lemma sh_put_shards ix k p : sorted ix ->
  sh_put shf n (shards ix) k p = (shards (fst (idx_put ix k p)), snd (idx_put ix k p)).
Proof.
  intros Hs. unfold sh_put, idx_put. set (i := shard_ix shf n k). rewrite nth_shards by apply shard_ix_lt.
  pose proof (filter_put (in_shard i) ix k p Hs) as Hi. unfold in_shard at 2 in Hi. fold i in Hi. rewrite Nat.eqb_refl in Hi.
  destruct (amap_put (filter (fun x => in_shard i (fst x)) ix) k p) as [s' old] eqn:Ep. cbn [fst] in Hi.
  f_equal.
  - unfold shards at 1. rewrite <- Hi. change i with (0 + i)%nat at 2.
    apply (upd_nth_map_seq (fun j => filter (fun x => in_shard j (fst x)) ix)
                           (fun j => filter (fun x => in_shard j (fst x)) (fst (amap_put ix k p)))).
    + apply shard_ix_lt.
    + intros j Hj. rewrite (filter_put (in_shard j) ix k p Hs). unfold in_shard at 1. fold i.
      destruct (Nat.eqb i j) eqn:E; [apply Nat.eqb_eq in E; cbn in Hj; congruence|reflexivity].
  - pose proof (amap_put_old _ k p (sorted_filter (in_shard i) ix Hs)) as Ho. rewrite Ep in Ho. cbn [snd] in Ho.
    rewrite Ho, (get_filter (in_shard i) ix k Hs). unfold in_shard. fold i. rewrite Nat.eqb_refl.
    symmetry. apply amap_put_old. exact Hs.
Qed.

Lemma sh_del_shards ix k : sorted ix ->
  sh_del shf n (shards ix) k = (shards (fst (idx_del ix k)), snd (idx_del ix k)).
Proof.
  intros Hs. unfold sh_del, idx_del. set (i := shard_ix shf n k). rewrite nth_shards by apply shard_ix_lt.
  pose proof (filter_del (in_shard i) ix k Hs) as Hi. unfold in_shard at 2 in Hi. fold i in Hi. rewrite Nat.eqb_refl in Hi.
  destruct (amap_del (filter (fun x => in_shard i (fst x)) ix) k) as [s' old] eqn:Ep. cbn [fst] in Hi.
  f_equal.
  - unfold shards at 1. rewrite <- Hi. change i with (0 + i)%nat at 2.
    apply (upd_nth_map_seq (fun j => filter (fun x => in_shard j (fst x)) ix)
                           (fun j => filter (fun x => in_shard j (fst x)) (fst (amap_del ix k)))).
    + apply shard_ix_lt.
    + intros j Hj. rewrite (filter_del (in_shard j) ix k Hs). unfold in_shard at 1. fold i.
      destruct (Nat.eqb i j) eqn:E; [apply Nat.eqb_eq in E; cbn in Hj; congruence|reflexivity].
  - pose proof (amap_del_old (filter (fun x => in_shard i (fst x)) ix) k) as Ho. rewrite Ep in Ho. cbn [snd] in Ho.
    rewrite Ho, (get_filter (in_shard i) ix k Hs). unfold in_shard. fold i. rewrite Nat.eqb_refl.
    symmetry. apply amap_del_old.
Qed.

(* every entry lives in exactly one shard: the sizes add up *)
Lemma sh_size_cons (a : index) r : sh_size (a :: r) = (length a + sh_size r)%nat.
Proof. reflexivity. Qed.
Lemma size_cons (x : bytes * pos) (ix : index) : forall l,
  sh_size (map (fun i => filter (fun y => in_shard i (fst y)) (x :: ix)) l)
  = (count_occ Nat.eq_dec l (shard_ix shf n (fst x)) + sh_size (map (fun i => filter (fun y => in_shard i (fst y)) ix) l))%nat.
Proof.
  induction l as [|i l IH]; [reflexivity|].
  cbn [map]. rewrite !sh_size_cons, IH. cbn [filter count_occ]. unfold in_shard at 1.
  destruct (Nat.eq_dec i (shard_ix shf n (fst x))) as [->|Hne].
  - rewrite Nat.eqb_refl. cbn [length]. lia.
  - destruct (Nat.eqb (shard_ix shf n (fst x)) i) eqn:E; [apply Nat.eqb_eq in E; congruence|]. lia.
Qed.

Lemma sh_size_shards ix : sh_size (shards ix) = length ix.
Proof.
  induction ix as [|x ix IH].
  - unfold shards. cbn [filter]. induction (seq 0 n) as [|i l IHl]; [reflexivity|]. cbn [map]. rewrite sh_size_cons. exact IHl.
  - unfold shards in *. rewrite size_cons, IH.
    assert (H1 : count_occ Nat.eq_dec (seq 0 n) (shard_ix shf n (fst x)) = 1%nat).
    { apply (proj1 (NoDup_count_occ' Nat.eq_dec (seq 0 n)) (seq_NoDup n 0)). apply in_seq. pose proof (shard_ix_lt (fst x)). lia. }
    rewrite H1. reflexivity.
Qed.

(* one step, and every sequence of index operations: the sharded index is the image of the flat map *)
Lemma sh_step_shards ix o : sorted ix ->
  sh_step shf n (shards ix) o = (shards (fst (flat_step ix o)), snd (flat_step ix o)) /\ sorted (fst (flat_step ix o)).
Proof.
  intros Hs. destruct o as [k p|k|k|]; cbn [sh_step flat_step].
  - rewrite (sh_put_shards ix k p Hs). unfold idx_put. pose proof (amap_put_sorted ix k p Hs).
    destruct (amap_put ix k p) as [s old]. cbn [fst snd] in *. split; [reflexivity|assumption].
  - rewrite (sh_get_shards ix k Hs). cbn [fst snd]. split; [reflexivity|assumption].
  - rewrite (sh_del_shards ix k Hs). unfold idx_del. pose proof (amap_del_sorted ix k Hs).
    destruct (amap_del ix k) as [s old]. cbn [fst snd] in *. split; [reflexivity|assumption].
  - rewrite sh_size_shards. cbn [fst snd]. split; [reflexivity|assumption].
Qed.

Theorem sharded_refines_flat : forall ops ix, sorted ix ->
  sh_run shf n (shards ix) ops = (shards (fst (flat_run ix ops)), snd (flat_run ix ops)).
Proof.
  induction ops as [|o ops IH]; intros ix Hs; cbn [sh_run flat_run]; [reflexivity|].
  destruct (sh_step_shards ix o Hs) as [E Hs']. rewrite E.
  destruct (flat_step ix o) as [ix' x]. cbn [fst snd] in *.
  rewrite (IH ix' Hs'). destruct (flat_run ix' ops) as [ix'' xs]. reflexivity.
Qed.
End Sharded.
