(* EngineLog.v — the log of a database (all records of all files, in file order) and how each
   operation extends it; positions stored in the files are consistent (each record is found at
   its own position, in the file its position names). *)
From Coq Require Import ZArith Lia ZifyN ZifyNat ZifyBool Sorting.Sorted.
From KV Require Import Bytes GenConsts Chunk Record Engine Script BytesLemmas AMapLemmas
  EngineFiles EngineInv EngineBatch EngineRefine.
Open Scope N_scope.

(* ---- the order of the files ----------------------------------------------------------------- *)
(* older files: strictly ascending ids, all below the active id *)
Fixpoint ids_above (o : list (N * lfile)) (lo : N) : Prop :=
  match o with
  | [] => True
  | (i, _) :: r => lo < i /\ ids_above r lo
  end.
Fixpoint ids_below (o : list (N * lfile)) (bound : N) : Prop :=
  match o with
  | [] => True
  | (i, _) :: r => i < bound /\ ids_above r i /\ ids_below r bound
  end.

Definition InvO (d : db) : Prop := ids_below (d_older d) (d_active_id d).

Lemma ids_above_weaken o lo lo' : lo' <= lo -> ids_above o lo -> ids_above o lo'.
Proof. induction o as [|[i f] o IH]; cbn; [auto|]. intros Hle [H1 H2]. split; [lia|auto]. Qed.
Lemma ids_below_weaken o b b' : b <= b' -> ids_below o b -> ids_below o b'.
Proof. induction o as [|[i f] o IH]; cbn; [auto|]. intros Hle (H1 & H2 & H3). repeat split; [lia|auto|auto]. Qed.

Lemma older_set_append o id f : ids_below o id -> older_set o id f = o ++ [(id, f)].
Proof.
  induction o as [|[i g] o IH]; cbn [older_set app ids_below]; [reflexivity|].
  intros (H1 & H2 & H3). destruct (i =? id) eqn:E; [lia|]. destruct (id <? i) eqn:E2; [lia|].
  rewrite IH by exact H3. reflexivity.
Qed.
Lemma ids_below_app o id f : ids_below o id -> ids_below (o ++ [(id, f)]) (id + 1).
Proof.
  induction o as [|[i g] o IH]; cbn [app ids_below ids_above]; intros H.
  - repeat split; lia.
  - destruct H as (H1 & H2 & H3). split; [lia|]. split; [|apply IH; exact H3].
    clear IH H3. induction o as [|[j h] o IH2]; cbn [app ids_above] in *; [split; [lia|exact I]|].
    destruct H2 as [H21 H22]. split; [exact H21|apply IH2; exact H22].
Qed.
Lemma older_get_none_below o id : ids_below o id -> older_get o id = None.
Proof. induction o as [|[i g] o IH]; cbn [older_get ids_below]; [reflexivity|].
  intros (H1 & _ & H3). destruct (i =? id) eqn:E; [lia|]. apply IH. exact H3. Qed.

(* ---- the log ----------------------------------------------------------------------------------- *)
Definition file_log (f : lfile) : list record := map fst (lf_recs f).
Definition files_log (fs : list (N * lfile)) : list record := concat (map (fun x => file_log (snd x)) fs).
Definition log (d : db) : list record := files_log (d_older d) ++ file_log (d_active d).

Lemma files_log_app a b : files_log (a ++ b) = files_log a ++ files_log b.
Proof. unfold files_log. rewrite map_app, concat_app. reflexivity. Qed.

(* ---- position consistency --------------------------------------------------------------------- *)
Definition pos_ok (id : N) (f : lfile) : Prop :=
  forall r p, In (r, p) (lf_recs f) -> p_fid p = id /\ lf_lookup (lf_recs f) (p_bid p) (p_off p) = Some r.
Definition InvP (d : db) : Prop :=
  pos_ok (d_active_id d) (d_active d) /\
  forall id f, older_get (d_older d) id = Some f -> pos_ok id f.

Lemma pos_ok_same id f f' : lf_recs f' = lf_recs f -> pos_ok id f -> pos_ok id f'.
Proof. intros H Hp r p Hin. rewrite H in *. apply Hp. exact Hin. Qed.

Lemma pos_ok_append id f f' r p :
  pos_ok id f -> lf_recs f' = lf_recs f ++ [(r, p)] -> p_fid p = id ->
  lf_lookup (lf_recs f) (p_bid p) (p_off p) = None -> pos_ok id f'.
Proof.
  intros Hp Hr Hfid Hnone r1 p1 Hin. rewrite Hr in *. apply in_app_or in Hin. destruct Hin as [Hin|[Heq|[]]].
  - destruct (Hp r1 p1 Hin) as [H1 H2]. split; [exact H1|]. apply lookup_after_append; assumption.
  - injection Heq as <- <-. split; [exact Hfid|]. apply lookup_new. exact Hnone.
Qed.

Lemma pos_ok_append_all id f f' out :
  pos_ok id f -> lf_recs f' = lf_recs f ++ out ->
  (forall r p, In (r, p) out -> p_fid p = id /\ lf_lookup (lf_recs f) (p_bid p) (p_off p) = None) ->
  (forall i r p, nth_error out i = Some (r, p) -> lf_lookup out (p_bid p) (p_off p) = Some r) ->
  pos_ok id f'.
Proof.
  intros Hp Hr Hfresh Hnth r1 p1 Hin. rewrite Hr in *. apply in_app_or in Hin. destruct Hin as [Hin|Hin].
  - destruct (Hp r1 p1 Hin) as [H1 H2]. split; [exact H1|]. rewrite lookup_app_gen, H2. reflexivity.
  - destruct (Hfresh r1 p1 Hin) as [H1 H2]. split; [exact H1|].
    destruct (In_nth_error _ _ Hin) as [i Hi]. rewrite lookup_app_gen, H2. eapply Hnth. exact Hi.
Qed.

(* ---- structural effect of the primitives ------------------------------------------------------ *)
(* d' is d after an optional rotation followed by appending [new] to the active file *)
Definition grows (d d' : db) (new : list (record * pos)) : Prop :=
  (d_active_id d' = d_active_id d /\ d_older d' = d_older d /\
   lf_recs (d_active d') = lf_recs (d_active d) ++ new) \/
  (exists a, d_active_id d' = d_active_id d + 1 /\ d_older d' = older_set (d_older d) (d_active_id d) a /\
             lf_recs a = lf_recs (d_active d) /\ lf_recs (d_active d') = new).

Lemma grows_log d d' new : InvO d -> grows d d' new -> log d' = log d ++ map fst new /\ InvO d'.
Proof.
  intros HO [(H1 & H2 & H3)|(a & H1 & H2 & H3 & H4)]; unfold log, InvO in *.
  - rewrite H1, H2. unfold file_log. rewrite H3, map_app. rewrite <- app_assoc. auto.
  - rewrite H1, H2, (older_set_append _ _ a HO), files_log_app. unfold files_log at 2. cbn [map concat snd].
    unfold file_log. rewrite H3, H4, app_nil_r. rewrite <- app_assoc. split; [reflexivity|].
    apply ids_below_app. exact HO.
Qed.

Lemma grows_InvP d d' new :
  InvO d -> InvP d -> grows d d' new ->
  (forall a, lf_recs a = lf_recs (d_active d) ++ new \/ lf_recs a = new -> True) ->
  pos_ok (d_active_id d') (d_active d') -> InvP d'.
Proof.
  intros HO [Hpa Hpo] Hg _ Hnew. split; [exact Hnew|].
  destruct Hg as [(H1 & H2 & H3)|(a & H1 & H2 & H3 & H4)].
  - rewrite H2. exact Hpo.
  - rewrite H2. intros id f Hget. rewrite older_get_set in Hget. destruct (id =? d_active_id d) eqn:E.
    + injection Hget as <-. assert (id = d_active_id d) by lia. subst id. eapply pos_ok_same; eassumption.
    + apply Hpo. exact Hget.
Qed.

Lemma db_rotate_grows d d' evs : db_rotate d = (d', evs) -> grows d d' [] /\ pos_ok (d_active_id d') (d_active d').
Proof.
  intros Hrot. unfold db_rotate in Hrot.
  destruct (h_sync (FData (d_active_id d)) (d_active d)) as [a ev1] eqn:Hs.
  destruct (h_open (io_of d) (FData (d_active_id d + 1)) false lf_empty) as [n ev2] eqn:Ho.
  injection Hrot as <- <-.
  pose proof (h_sync_same (FData (d_active_id d)) (d_active d)) as [Ha _]. rewrite Hs in Ha. cbn [fst] in Ha.
  pose proof (h_open_new (io_of d) (FData (d_active_id d + 1))) as [Hn _]. rewrite Ho in Hn. cbn [fst] in Hn.
  split.
  - right. exists a. cbn [d_active_id d_older d_active]. auto.
  - cbn [d_active_id d_active]. intros r p Hin. rewrite Hn in Hin. destruct Hin.
Qed.

Lemma db_append_grows d r d' p evs :
  InvF d -> InvO d -> InvP d -> db_append d r = (d', p, evs) ->
  grows d d' [(r, p)] /\ InvP d' /\ InvO d' /\ log d' = log d ++ [r].
Proof.
  intros HF HO HP Happ. unfold db_append in Happ.
  set (est := disk_size_estimate (len (r_key r)) (len (r_value r))) in *.
  destruct (if c_fsize (d_cfg d) <? lf_size (d_active d) + est then db_rotate d else (d, [])) as [d1 ev1] eqn:Hrot.
  assert (H1 : grows d d1 [] /\ pos_ok (d_active_id d1) (d_active d1) /\ InvF d1).
  { destruct (c_fsize (d_cfg d) <? lf_size (d_active d) + est).
    - destruct (db_rotate_grows _ _ _ Hrot) as [A B]. destruct (db_rotate_spec _ _ _ HF Hrot) as (C & _).
      auto.
    - injection Hrot as <- <-. split; [left; rewrite app_nil_r; auto|]. split; [exact (proj1 HP)|exact HF]. }
  destruct H1 as (Hg1 & Hp1 & [Hact1 Hold1]).
  destruct (lf_append (io_of d1) (FData (d_active_id d1)) (d_active_id d1) (d_active d1) r) as [[a p0] ev2] eqn:Hla.
  destruct (lf_append_spec _ _ _ _ _ _ _ _ Hact1 Hla) as (Hwfa & Hrecs & Hfid & Hge & Hoff & Hsz & Hpsz & Hnone).
  assert (Hfin : exists a', p = p0 /\ lf_recs a' = lf_recs a /\ d_active_id d' = d_active_id d1 /\
                            d_older d' = d_older d1 /\ d_active d' = a').
  { destruct ((c_sync (d_cfg d1) =? sync_Always) || _).
    - destruct (h_sync (FData (d_active_id d1)) a) as [a' ev3] eqn:Hs.
      pose proof (h_sync_same (FData (d_active_id d1)) a) as [Hss _]. rewrite Hs in Hss. cbn [fst] in Hss.
      injection Happ as <- <- <-. exists a'. cbn. repeat split; auto.
    - injection Happ as <- <- <-. exists a. cbn. repeat split; auto. }
  destruct Hfin as (a' & -> & Ha' & Hid & Hol & Hac).
  assert (Hg : grows d d' [(r, p0)]).
  { destruct Hg1 as [(G1 & G2 & G3)|(b & G1 & G2 & G3 & G4)].
    - left. rewrite Hid, Hol, Hac, Ha', Hrecs, G1, G2, G3, app_nil_r. auto.
    - right. exists b. rewrite Hid, Hol, Hac, Ha', Hrecs, G1, G2, G4. auto. }
  assert (Hpn : pos_ok (d_active_id d') (d_active d')).
  { rewrite Hid, Hac. eapply pos_ok_append; [exact Hp1| |exact Hfid|exact Hnone]. rewrite Ha'. exact Hrecs. }
  destruct (grows_log d d' _ HO Hg) as [Hlog HO'].
  split; [exact Hg|]. split; [exact (grows_InvP d d' _ HO HP Hg (fun _ _ => I) Hpn)|]. split; [exact HO'|exact Hlog].
Qed.

(* ---- log effect of a multi-record flush --------------------------------------------------------- *)
Lemma db_rotate_log d d' evs : InvF d -> InvO d -> InvP d -> db_rotate d = (d', evs) ->
  log d' = log d /\ InvO d' /\ InvP d'.
Proof.
  intros HF HO HP Hrot. destruct (db_rotate_grows _ _ _ Hrot) as [Hg Hpn].
  destruct (grows_log d d' [] HO Hg) as [Hlog HO']. cbn [map] in Hlog. rewrite app_nil_r in Hlog.
  split; [exact Hlog|]. split; [exact HO'|]. exact (grows_InvP d d' [] HO HP Hg (fun _ _ => I) Hpn).
Qed.

Lemma batch_flush_log d b d' b' evs :
  InvF d -> InvO d -> InvP d -> batch_flush d b = (d', b', evs) ->
  log d' = log d ++ map (tag (b_id b)) (b_staged b) /\ InvO d' /\ InvP d'.
Proof.
  intros HF HO HP Hfl. unfold batch_flush in Hfl.
  set (sz := lf_size (d_active d)) in *.
  destruct (if (0 <? sz) && (c_fsize (d_cfg d) <? sz + b_cached b + maxFinRecord) then db_rotate d else (d, []))
    as [d1 ev1] eqn:Hrot.
  assert (H1 : log d1 = log d /\ InvO d1 /\ InvP d1 /\ InvF d1).
  { destruct ((0 <? sz) && (c_fsize (d_cfg d) <? sz + b_cached b + maxFinRecord)).
    - destruct (db_rotate_log _ _ _ HF HO HP Hrot) as (A & B & C).
      destruct (db_rotate_spec _ _ _ HF Hrot) as (D & _). auto.
    - injection Hrot as <- <-. auto. }
  destruct H1 as (Hlog1 & HO1 & HP1 & [Hact1 Hold1]).
  fold (tag (b_id b)) in Hfl.
  set (tagged := map (tag (b_id b)) (b_staged b)) in *.
  destruct (lf_append_all (io_of d1) (FData (d_active_id d1)) (d_active_id d1) (d_active d1) tagged)
    as [[a ps] ev2] eqn:Hla.
  destruct (lf_append_all_spec _ _ _ _ _ _ _ _ Hact1 Hla) as (out & Hrecs & Hmapf & Hmaps & Hwfa & Hfresh & Hnth).
  destruct (if b_sync b then h_sync (FData (d_active_id d1)) a else (a, [])) as [a' ev3] eqn:Hsy.
  assert (Ha' : lf_recs a' = lf_recs a).
  { destruct (b_sync b).
    - pose proof (h_sync_same (FData (d_active_id d1)) a) as [H _]. rewrite Hsy in H. exact H.
    - injection Hsy as <- <-. reflexivity. }
  injection Hfl as <- <- <-.
  set (d2 := set_active d1 (d_active_id d1) a').
  destruct (apply_staged_files (combine tagged ps) d2) as (F1 & F2 & F3).
  assert (Hg : grows d1 d2 out).
  { left. unfold d2. cbn [set_active d_active_id d_older d_active]. rewrite Ha', Hrecs. auto. }
  assert (Hpn : pos_ok (d_active_id d2) (d_active d2)).
  { unfold d2. cbn [set_active d_active_id d_active].
    eapply pos_ok_append_all; [exact (proj1 HP1)| |exact Hfresh|exact Hnth]. rewrite Ha'. exact Hrecs. }
  destruct (grows_log d1 d2 out HO1 Hg) as [Hlog2 HO2].
  pose proof (grows_InvP d1 d2 out HO1 HP1 Hg (fun _ _ => I) Hpn) as HP2.
  split; [|split].
  - unfold log. rewrite F2, F3. fold (log d2). rewrite Hlog2, Hlog1, Hmapf. reflexivity.
  - unfold InvO. rewrite F1, F3. exact HO2.
  - unfold InvP. rewrite F1, F2, F3. exact HP2.
Qed.

Lemma R_exists d : Inv d -> exists m, R d m.
Proof.
  intros [_ [_ Hr]]. unfold R. revert Hr. generalize (d_index d) as ix.
  induction ix as [|[k p] ix IH]; intros Hr.
  - exists []. constructor.
  - destruct IH as [m Hm]; [intros k0 p0 Hin; apply Hr; right; exact Hin|].
    destruct (Hr k p (or_introl eq_refl)) as (r & Hrp & _ & Hty).
    exists ((k, r_value r) :: m). constructor; [|exact Hm]. split; [reflexivity|].
    cbn [snd]. unfold val_at. rewrite Hrp, Hty. reflexivity.
Qed.

Lemma batch_flush_rotate_log d b d' b' evs :
  InvF d -> InvO d -> InvP d -> Inv d -> batch_flush_rotate d b = (d', b', evs) ->
  log d' = log d ++ map (tag (b_id b)) (b_staged b) /\ InvO d' /\ InvP d'.
Proof.
  intros HF HO HP HI H. unfold batch_flush_rotate in H.
  destruct (batch_flush d b) as [[d1 b1] ev1] eqn:Hfl.
  destruct (db_rotate d1) as [d2 ev2] eqn:Hrot. injection H as <- <- <-.
  destruct (batch_flush_log _ _ _ _ _ HF HO HP Hfl) as (L1 & O1 & P1).
  assert (HF1 : InvF d1).
  { (* the files part of the invariant after a flush *)
    destruct (R_exists d HI) as [m HRm].
    destruct (batch_flush_spec d m b d1 b1 ev1 HI HRm Hfl) as ([HF1 _] & _). exact HF1. }
  destruct (db_rotate_log _ _ _ HF1 O1 P1 Hrot) as (L2 & O2 & P2).
  rewrite L2. auto.
Qed.

(* appending one record directly to the active file (the batch-finished record) *)
Lemma active_append_log d r a p ev a' :
  InvF d -> InvO d -> InvP d ->
  lf_append (io_of d) (FData (d_active_id d)) (d_active_id d) (d_active d) r = (a, p, ev) ->
  lf_recs a' = lf_recs a ->
  log (set_active d (d_active_id d) a') = log d ++ [r] /\
  InvO (set_active d (d_active_id d) a') /\ InvP (set_active d (d_active_id d) a').
Proof.
  intros [Hact Hold] HO HP Hla Ha'.
  destruct (lf_append_spec _ _ _ _ _ _ _ _ Hact Hla) as (Hwfa & Hrecs & Hfid & Hge & Hoff & Hsz & Hpsz & Hnone).
  set (d2 := set_active d (d_active_id d) a').
  assert (Hg : grows d d2 [(r, p)]).
  { left. unfold d2. cbn [set_active d_active_id d_older d_active]. rewrite Ha', Hrecs. auto. }
  assert (Hpn : pos_ok (d_active_id d2) (d_active d2)).
  { unfold d2. cbn [set_active d_active_id d_active].
    eapply pos_ok_append; [exact (proj1 HP)| |exact Hfid|exact Hnone]. rewrite Ha'. exact Hrecs. }
  destruct (grows_log d d2 _ HO Hg) as [Hlog HO2]. cbn [map fst] in Hlog.
  split; [exact Hlog|]. split; [exact HO2|]. exact (grows_InvP d d2 _ HO HP Hg (fun _ _ => I) Hpn).
Qed.
