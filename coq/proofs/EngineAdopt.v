(* EngineAdopt.v — the adoption step of Open (loadMergeFiles): which data files the directory holds
   afterwards, as a function of the data directory and the merge directory before. *)
From Coq Require Import ZArith Lia ZifyN ZifyNat ZifyBool Sorting.Sorted.
From KV Require Import Bytes GenConsts Chunk Record Engine Script BytesLemmas AMapLemmas
  EngineFiles EngineInv EngineBatch EngineRefine EngineLog EngineRecover EngineOpen.
Open Scope N_scope.

(* ---- ascending association lists of files ---------------------------------------------------------- *)
Lemma ids_above_none o lo x : ids_above o lo -> x <= lo -> older_get o x = None.
Proof.
  induction o as [|[i g] o IH]; cbn [ids_above older_get]; [reflexivity|].
  intros [H1 H2] Hx. destruct (i =? x) eqn:E; [lia|auto].
Qed.

Lemma asc_ext : forall a b, asc a -> asc b -> (forall x, older_get a x = older_get b x) -> a = b.
Proof.
  induction a as [|[i f] a IH]; intros b Ha Hb Hget.
  - destruct b as [|[j g] b]; [reflexivity|]. specialize (Hget j). cbn [older_get] in Hget. rewrite N.eqb_refl in Hget. discriminate.
  - destruct b as [|[j g] b]; [specialize (Hget i); cbn [older_get] in Hget; rewrite N.eqb_refl in Hget; discriminate|].
    destruct Ha as [Ha1 Ha2]. destruct Hb as [Hb1 Hb2].
    assert (Hij : i = j).
    { pose proof (Hget i) as H1. pose proof (Hget j) as H2. cbn [older_get] in H1, H2. rewrite N.eqb_refl in H1, H2.
      destruct (N.lt_trichotomy i j) as [Hlt|[Heq|Hgt]]; [|exact Heq|].
      - destruct (j =? i) eqn:E; [lia|]. rewrite (ids_above_none b j i Hb1) in H1 by lia. discriminate.
      - destruct (i =? j) eqn:E; [lia|]. rewrite (ids_above_none a i j Ha1) in H2 by lia. discriminate. }
    subst j. pose proof (Hget i) as H1. cbn [older_get] in H1. rewrite N.eqb_refl in H1. injection H1 as <-.
    f_equal. apply IH; [exact Ha2|exact Hb2|]. intros x. specialize (Hget x). cbn [older_get] in Hget.
    destruct (i =? x) eqn:E; [|exact Hget].
    rewrite (ids_above_none a i x Ha1), (ids_above_none b i x Hb1) by lia. reflexivity.
Qed.

Lemma ids_above_del o lo id : ids_above o lo -> ids_above (files_del o id) lo.
Proof.
  induction o as [|[i g] o IH]; cbn [ids_above files_del]; [auto|]. intros [H1 H2].
  destruct (i =? id); [exact H2|cbn [ids_above]; auto].
Qed.
Lemma asc_del o id : asc o -> asc (files_del o id).
Proof.
  induction o as [|[i g] o IH]; cbn [asc files_del]; [auto|]. intros [H1 H2].
  destruct (i =? id); [exact H2|]. cbn [asc]. split; [apply ids_above_del; exact H1|auto].
Qed.
Lemma files_del_get o id x : asc o -> older_get (files_del o id) x = if x =? id then None else older_get o x.
Proof.
  induction o as [|[i g] o IH]; cbn [asc files_del older_get]; [intros _; destruct (x =? id); reflexivity|].
  intros [H1 H2]. destruct (i =? id) eqn:E.
  - assert (i = id) by lia. subst i. destruct (x =? id) eqn:E2.
    + assert (x = id) by lia. subst x. apply (ids_above_none o id id H1). lia.
    + destruct (id =? x) eqn:E3; [lia|reflexivity].
  - cbn [older_get]. destruct (i =? x) eqn:E2.
    + destruct (x =? id) eqn:E3; [lia|reflexivity].
    + apply IH. exact H2.
Qed.
Lemma Forall_del (P : N * lfile -> Prop) o id : Forall P o -> Forall P (files_del o id).
Proof.
  induction o as [|[i g] o IH]; cbn [files_del]; [auto|]. intros H.
  destruct (i =? id); [exact (Forall_inv_tail H)|]. constructor; [exact (Forall_inv H)|exact (IH (Forall_inv_tail H))].
Qed.

Lemma ids_above_set o lo id f : ids_above o lo -> lo < id -> ids_above (older_set o id f) lo.
Proof.
  induction o as [|[i g] o IH]; cbn [ids_above older_set]; [intros _ H; cbn; auto|].
  intros [H1 H2] Hlt. destruct (i =? id) eqn:E; [cbn [ids_above]; auto|].
  destruct (id <? i) eqn:E2; cbn [ids_above]; auto.
Qed.
Lemma asc_set o id f : asc o -> asc (older_set o id f).
Proof.
  induction o as [|[i g] o IH]; cbn [asc older_set]; [intros _; cbn; auto|].
  intros [H1 H2]. destruct (i =? id) eqn:E.
  - assert (i = id) by lia. subst i. cbn [asc]. auto.
  - destruct (id <? i) eqn:E2; cbn [asc ids_above].
    + split; [split; [lia|eapply ids_above_weaken; [|exact H1]; lia]|auto].
    + split; [apply ids_above_set; [exact H1|lia]|auto].
Qed.
Lemma Forall_set (P : N * lfile -> Prop) o id f : Forall P o -> P (id, f) -> Forall P (older_set o id f).
Proof.
  induction o as [|[i g] o IH]; cbn [older_set]; intros H Hp; [constructor; auto|].
  destruct (i =? id); [constructor; [exact Hp|exact (Forall_inv_tail H)]|].
  destruct (id <? i); [constructor; [exact Hp|exact H]|].
  constructor; [exact (Forall_inv H)|exact (IH (Forall_inv_tail H) Hp)].
Qed.

Lemma files_get_eq fs id : files_get fs id = older_get fs id.
Proof. destruct fs; reflexivity. Qed.

(* ---- the three loops of loadMergeFiles -------------------------------------------------------------- *)
Lemma count_rewritten_spec mf n0 mid : (forall x, older_get mf x <> None <-> x < n0) -> n0 <= mid ->
  forall fuel id acc, (N.to_nat (mid - id) <= fuel)%nat -> acc = N.min id n0 ->
  count_rewritten mf fuel id mid acc = n0.
Proof.
  intros Hpres Hn. induction fuel as [|fuel IH]; intros id acc Hf Hacc; cbn [count_rewritten].
  - subst acc. clear Hpres. destruct (N.min_spec id n0) as [[? ->]|[? ->]]; lia.
  - destruct (mid <=? id) eqn:E; [subst acc; clear Hpres IH; destruct (N.min_spec id n0) as [[? ->]|[? ->]]; lia|].
    apply IH; [lia|].
    rewrite files_get_eq. destruct (older_get mf id) as [g|] eqn:Eg.
    + assert (id < n0) by (apply Hpres; rewrite Eg; discriminate). clear Hpres IH. cbv beta iota.
      destruct (N.min_spec (id + 1) n0) as [[? ->]|[? ->]]; lia.
    + assert (~ id < n0) by (intros H; apply Hpres in H; contradiction). subst acc. clear Hpres IH. cbv beta iota.
      destruct (N.min_spec (id + 1) n0) as [[? ->]|[? ->]]; destruct (N.min_spec id n0) as [[? ->]|[? ->]]; lia.
Qed.

Lemma remove_originals_spec (P : N * lfile -> Prop) mid : forall fuel data id,
  asc data -> Forall P data -> (N.to_nat (mid - id) <= fuel)%nat ->
  asc (fst (remove_originals data fuel id mid)) /\ Forall P (fst (remove_originals data fuel id mid)) /\ forall x, older_get (fst (remove_originals data fuel id mid)) x =
            if (id <=? x) && (x <? mid) then None else older_get data x.
Proof.
  induction fuel as [|fuel IH]; intros data id Ha Hp Hf; cbn [remove_originals fst].
  - split; [exact Ha|]. split; [exact Hp|]. intros x. destruct ((id <=? x) && (x <? mid)) eqn:E; [lia|reflexivity].
  - destruct (mid <=? id) eqn:E.
    + cbn [fst]. split; [exact Ha|]. split; [exact Hp|]. intros x. destruct ((id <=? x) && (x <? mid)) eqn:E2; [lia|reflexivity].
    + destruct (IH (files_del data id) (id + 1) (asc_del _ _ Ha) (Forall_del P _ _ Hp)) as (A & B & C); [lia|].
      destruct (remove_originals (files_del data id) fuel (id + 1) mid) as [data' evs]. cbn [fst] in *.
      split; [exact A|]. split; [exact B|]. intros x. rewrite C, (files_del_get data id x Ha).
      destruct (x =? id) eqn:E1; destruct ((id + 1 <=? x) && (x <? mid)) eqn:E2; destruct ((id <=? x) && (x <? mid)) eqn:E3;
        try reflexivity; lia.
Qed.

Lemma rename_rewritten_spec (P : N * lfile -> Prop) n : forall fuel data mf id,
  asc data -> Forall P data -> asc mf -> (forall i g, older_get mf i = Some g -> P (i, g)) ->
  (N.to_nat (n - id) <= fuel)%nat ->
  let res := fst (fst (rename_rewritten data mf fuel id n)) in
  asc res /\ Forall P res /\ forall x, older_get res x =
            if (id <=? x) && (x <? n) then match older_get mf x with Some g => Some g | None => older_get data x end
            else older_get data x.
Proof.
  induction fuel as [|fuel IH]; intros data mf id Ha Hp Hm Hpm Hf; cbn [rename_rewritten fst].
  - split; [exact Ha|]. split; [exact Hp|]. intros x. destruct ((id <=? x) && (x <? n)) eqn:E; [lia|reflexivity].
  - destruct (n <=? id) eqn:E.
    + cbn [fst]. split; [exact Ha|]. split; [exact Hp|]. intros x. destruct ((id <=? x) && (x <? n)) eqn:E2; [lia|reflexivity].
    + rewrite files_get_eq. destruct (older_get mf id) as [g|] eqn:Eg.
      * destruct (IH (older_set data id g) (files_del mf id) (id + 1) (asc_set _ _ _ Ha)
                     (Forall_set P _ _ _ Hp (Hpm _ _ Eg)) (asc_del _ _ Hm)) as (A & B & C).
        { intros i h Hg. rewrite (files_del_get mf id i Hm) in Hg. destruct (i =? id); [discriminate|]. exact (Hpm _ _ Hg). }
        { lia. }
        destruct (rename_rewritten (older_set data id g) (files_del mf id) fuel (id + 1) n) as [[data' m'] evs]. cbn [fst] in *.
        split; [exact A|]. split; [exact B|]. intros x. rewrite C, (files_del_get mf id x Hm), older_get_set.
        destruct (x =? id) eqn:E1.
        -- assert (x = id) by lia. subst x. rewrite Eg.
           destruct ((id + 1 <=? id) && (id <? n)) eqn:E2; [lia|]. destruct ((id <=? id) && (id <? n)) eqn:E3; [reflexivity|lia].
        -- destruct ((id + 1 <=? x) && (x <? n)) eqn:E2; destruct ((id <=? x) && (x <? n)) eqn:E3; try reflexivity; lia.
      * destruct (IH data mf (id + 1) Ha Hp Hm Hpm) as (A & B & C); [lia|].
        destruct (rename_rewritten data mf fuel (id + 1) n) as [[data' m'] evs]. cbn [fst] in *.
        split; [exact A|]. split; [exact B|]. intros x. rewrite C.
        destruct (x =? id) eqn:E1.
        -- assert (x = id) by lia. subst x. rewrite Eg.
           destruct ((id + 1 <=? id) && (id <? n)) eqn:E2; [lia|]. destruct ((id <=? id) && (id <? n)); reflexivity.
        -- destruct ((id + 1 <=? x) && (x <? n)) eqn:E2; destruct ((id <=? x) && (x <? n)) eqn:E3; try reflexivity; lia.
Qed.

(* ---- filters by id ------------------------------------------------------------------------------------ *)
Lemma older_get_filter (pb : N -> bool) fs x :
  older_get (filter (fun y => pb (fst y)) fs) x = if pb x then older_get fs x else None.
Proof.
  induction fs as [|[i g] fs IH]; cbn [filter older_get fst]; [destruct (pb x); reflexivity|].
  destruct (pb i) eqn:Ei; cbn [older_get]; destruct (i =? x) eqn:E.
  - assert (i = x) by lia. subst i. rewrite Ei. reflexivity.
  - exact IH.
  - assert (i = x) by lia. subst i. rewrite Ei in *. exact IH.
  - exact IH.
Qed.
Lemma ids_above_filter (pb : N * lfile -> bool) fs lo : ids_above fs lo -> ids_above (filter pb fs) lo.
Proof. induction fs as [|[i g] fs IH]; cbn [filter ids_above]; [auto|]. intros [H1 H2]. destruct (pb (i, g)); cbn [ids_above]; auto. Qed.
Lemma asc_filter (pb : N * lfile -> bool) fs : asc fs -> asc (filter pb fs).
Proof.
  induction fs as [|[i g] fs IH]; cbn [filter asc]; [auto|]. intros [H1 H2].
  destruct (pb (i, g)); cbn [asc]; [split; [apply ids_above_filter; exact H1|auto]|auto].
Qed.

(* ---- loadMergeFiles when a finished merge is waiting ------------------------------------------------ *)
(* the rewritten files: ids 0 .. n-1, each a well-formed closed file *)
Definition merged_ok (mf : list (N * lfile)) (n : N) : Prop :=
  asc mf /\ Forall file_ok mf /\ (forall x, older_get mf x <> None <-> x < n).

Theorem load_merge_adopt k md mid n h :
  k_merge k = Some md -> m_marker md = Some mid -> 0 < mid -> m_hint md = Some h ->
  merged_ok (m_files md) n -> 0 < n -> n <= mid ->
  asc (k_data k) -> Forall file_ok (k_data k) ->
  exists data2 ev, load_merge_files k = (mkDisk data2 (Some h) None, mid, ev) /\
    asc data2 /\ Forall file_ok data2 /\
    below n data2 = m_files md /\ from_ mid data2 = from_ mid (k_data k) /\
    (forall id f, In (id, f) data2 -> id < n \/ mid <= id).
Proof.
  intros Hm Hmk Hmid Hh (Hma & Hmok & Hpres) Hn0 Hn Hda Hdok.
  unfold load_merge_files. rewrite Hm, Hmk, Hh. destruct (mid =? 0) eqn:E0; [lia|].
  rewrite (count_rewritten_spec (m_files md) n mid Hpres Hn (S (N.to_nat mid)) 0 0) by lia.
  destruct (0 <? n) eqn:E1; [|lia].
  destruct (remove_originals_spec file_ok mid (S (N.to_nat mid)) (k_data k) n Hda Hdok) as (A1 & B1 & C1); [lia|].
  destruct (remove_originals (k_data k) (S (N.to_nat mid)) n mid) as [data1 ev1]. cbn [fst] in *.
  destruct (rename_rewritten_spec file_ok n (S (N.to_nat mid)) data1 (m_files md) 0 A1 B1 Hma) as (A2 & B2 & C2).
  { intros i g Hg. rewrite Forall_forall in Hmok. apply Hmok. apply older_get_some_in. exact Hg. }
  { lia. }
  destruct (rename_rewritten data1 (m_files md) (S (N.to_nat mid)) 0 n) as [[data2 mf2] ev2]. cbn [fst] in *.
  assert (Hget : forall x, older_get data2 x =
                  if x <? n then older_get (m_files md) x else if x <? mid then None else older_get (k_data k) x).
  { intros x. rewrite C2, C1. destruct (x <? n) eqn:Ex.
    - assert (H0 : (0 <=? x) = true) by lia. rewrite H0. cbn [andb].
      destruct (older_get (m_files md) x) as [g|] eqn:Eg; [reflexivity|].
      exfalso. assert (Hx : x < n) by lia. apply Hpres in Hx. contradiction.
    - rewrite Bool.andb_false_r. destruct (x <? mid) eqn:Ex2.
      + assert (H0 : (n <=? x) = true) by lia. rewrite H0. reflexivity.
      + rewrite Bool.andb_false_r. reflexivity. }
  eexists _, _. split; [reflexivity|]. split; [exact A2|]. split; [exact B2|].
  split; [|split].
  - apply asc_ext; [apply asc_filter; exact A2|exact Hma|]. intros x. unfold below.
    rewrite (older_get_filter (fun i => i <? n)), Hget. destruct (x <? n) eqn:Ex; [reflexivity|].
    destruct (older_get (m_files md) x) as [g|] eqn:Eg; [|reflexivity].
    exfalso. assert (Hx : x < n) by (apply Hpres; rewrite Eg; discriminate). lia.
  - apply asc_ext; [apply asc_filter; exact A2|apply asc_filter; exact Hda|]. intros x. unfold from_.
    rewrite !(older_get_filter (fun i => mid <=? i)), Hget. destruct (mid <=? x) eqn:Ex; [|reflexivity].
    destruct (x <? n) eqn:E2; [lia|]. destruct (x <? mid) eqn:E3; [lia|reflexivity].
  - intros id f Hin. pose proof (asc_get_in _ _ _ A2 Hin) as Hg. rewrite Hget in Hg.
    destruct (id <? n) eqn:E2; [lia|]. destruct (id <? mid) eqn:E3; [discriminate|lia].
Qed.

(* ---- re-running an interrupted adoption ------------------------------------------------------------- *)
(* the merge directory holds the rewritten files j .. n-1 (the files below j were already moved) *)
Lemma count_rewritten_from mf j n0 mid : (forall x, older_get mf x <> None <-> j <= x /\ x < n0) -> j < n0 -> n0 <= mid ->
  forall fuel id acc, (N.to_nat (mid - id) <= fuel)%nat -> acc = (if id <=? j then 0 else N.min id n0) ->
  count_rewritten mf fuel id mid acc = n0.
Proof.
  intros Hpres Hj Hn. induction fuel as [|fuel IH]; intros id acc Hf Hacc; cbn [count_rewritten].
  - subst acc. clear Hpres. destruct (id <=? j) eqn:E; [lia|]. destruct (N.min_spec id n0) as [[? ->]|[? ->]]; lia.
  - destruct (mid <=? id) eqn:E.
    + subst acc. clear Hpres IH. destruct (id <=? j) eqn:E2; [lia|]. destruct (N.min_spec id n0) as [[? ->]|[? ->]]; lia.
    + apply IH; [lia|]. rewrite files_get_eq. destruct (older_get mf id) as [g|] eqn:Eg.
      * assert (Hid : j <= id /\ id < n0) by (apply Hpres; rewrite Eg; discriminate). clear Hpres IH. cbv beta iota.
        destruct (id + 1 <=? j) eqn:E2; [lia|]. destruct (N.min_spec (id + 1) n0) as [[? ->]|[? ->]]; lia.
      * assert (Hid : ~ (j <= id /\ id < n0)) by (intros H; apply Hpres in H; contradiction). subst acc. clear Hpres IH. cbv beta iota.
        destruct (id <=? j) eqn:E1; destruct (id + 1 <=? j) eqn:E2; lia.
Qed.

Lemma count_rewritten_none mf mid : (forall x, older_get mf x = None) ->
  forall fuel id acc, count_rewritten mf fuel id mid acc = acc.
Proof.
  intros Hn. induction fuel as [|fuel IH]; intros id acc; cbn [count_rewritten]; [reflexivity|].
  destruct (mid <=? id); [reflexivity|]. rewrite files_get_eq, Hn. apply IH.
Qed.

Lemma remove_originals_zero data fuel id mid : (forall x, id <= x -> x < mid -> older_get data x = None) ->
  asc data -> fst (remove_originals data fuel id mid) = data.
Proof.
  revert data id. induction fuel as [|fuel IH]; intros data id Hn Ha; cbn [remove_originals fst]; [reflexivity|].
  destruct (mid <=? id) eqn:E; [reflexivity|].
  assert (Hdel : files_del data id = data).
  { apply asc_ext; [apply asc_del; exact Ha|exact Ha|]. intros x. rewrite (files_del_get data id x Ha).
    destruct (x =? id) eqn:E2; [|reflexivity]. assert (x = id) by lia. subst x. symmetry. apply Hn; lia. }
  rewrite Hdel. specialize (IH data (id + 1) ltac:(intros x H1 H2; apply Hn; lia) Ha).
  destruct (remove_originals data fuel (id + 1) mid) as [data' evs]. exact IH.
Qed.

Theorem load_merge_resume k md mid n j h MFull :
  k_merge k = Some md -> m_marker md = Some mid -> 0 < mid -> 0 < n -> n <= mid -> j <= n ->
  merged_ok MFull n -> m_files md = from_ j MFull ->
  asc (k_data k) -> Forall file_ok (k_data k) ->
  (forall x, x < j -> older_get (k_data k) x = older_get MFull x) ->
  (0 < j -> forall x, n <= x -> x < mid -> older_get (k_data k) x = None) ->
  (m_hint md = Some h \/ (m_hint md = None /\ k_hint k = Some h /\ j = n)) ->
  exists data2 ev, load_merge_files k = (mkDisk data2 (Some h) None, mid, ev) /\
    asc data2 /\ Forall file_ok data2 /\
    below n data2 = MFull /\ from_ mid data2 = from_ mid (k_data k) /\
    (forall id f, In (id, f) data2 -> id < n \/ mid <= id).
Proof.
  intros Hm Hmk Hmid Hn0 Hn Hj (Hma & Hmok & Hpres) Hmf Hda Hdok Hinst Hrem Hhint.
  assert (Hmfget : forall x, older_get (m_files md) x = if j <=? x then older_get MFull x else None).
  { intros x. rewrite Hmf. unfold from_. apply (older_get_filter (fun i => j <=? i)). }
  assert (Hmfa : asc (m_files md)) by (rewrite Hmf; apply asc_filter; exact Hma).
  assert (Hmfok : forall i g, older_get (m_files md) i = Some g -> file_ok (i, g)).
  { intros i g Hg. rewrite Hmfget in Hg. destruct (j <=? i); [|discriminate].
    rewrite Forall_forall in Hmok. apply Hmok. apply older_get_some_in. exact Hg. }
  assert (Hfinal : forall data2, asc data2 ->
             (forall x, older_get data2 x = if x <? n then older_get MFull x else if x <? mid then None else older_get (k_data k) x) ->
             below n data2 = MFull /\ from_ mid data2 = from_ mid (k_data k) /\ (forall id f, In (id, f) data2 -> id < n \/ mid <= id)).
  { intros data2 A2 Hget. split; [|split].
    - apply asc_ext; [apply asc_filter; exact A2|exact Hma|]. intros x. unfold below.
      rewrite (older_get_filter (fun i => i <? n)), Hget. destruct (x <? n) eqn:Ex; [reflexivity|].
      destruct (older_get MFull x) as [g|] eqn:Eg; [|reflexivity].
      exfalso. assert (Hx : x < n) by (apply Hpres; rewrite Eg; discriminate). lia.
    - apply asc_ext; [apply asc_filter; exact A2|apply asc_filter; exact Hda|]. intros x. unfold from_.
      rewrite !(older_get_filter (fun i => mid <=? i)), Hget. destruct (mid <=? x) eqn:Ex; [|reflexivity].
      destruct (x <? n) eqn:E2; [lia|]. destruct (x <? mid) eqn:E3; [lia|reflexivity].
    - intros id f Hin. pose proof (asc_get_in _ _ _ A2 Hin) as Hg. rewrite Hget in Hg.
      destruct (id <? n) eqn:E2; [lia|]. destruct (id <? mid) eqn:E3; [discriminate|lia]. }
  unfold load_merge_files. rewrite Hm, Hmk. destruct (mid =? 0) eqn:E0; [lia|].
  assert (Hh' : exists ev3, (match m_hint md with Some h0 => (Some h0, [EvRename MHint FHint]) | None => (k_hint k, []) end) = (Some h, ev3)).
  { destruct Hhint as [->|(-> & -> & _)]; eexists; reflexivity. }
  destruct Hh' as [ev3 Hh'].
  destruct (N.eq_dec j n) as [Hjn|Hjn].
  - (* every rewritten file was already moved *)
    subst j. rewrite (count_rewritten_none (m_files md) mid) by (intros x; rewrite Hmfget; destruct (n <=? x) eqn:E; [|reflexivity];
      destruct (older_get MFull x) as [g|] eqn:Eg; [|reflexivity]; exfalso; assert (x < n) by (apply Hpres; rewrite Eg; discriminate); lia).
    change (0 <? 0) with false. cbv iota. rewrite Hh'. eexists _, _. split; [reflexivity|]. split; [exact Hda|]. split; [exact Hdok|].
    apply Hfinal; [exact Hda|]. intros x. destruct (x <? n) eqn:Ex; [apply Hinst; lia|].
    destruct (x <? mid) eqn:Ex2; [apply Hrem; lia|reflexivity].
  - rewrite (count_rewritten_from (m_files md) j n mid) with (acc := 0) (id := 0); [| |lia|exact Hn|lia|destruct (0 <=? j) eqn:E; [reflexivity|lia]].
    2: { intros x. rewrite Hmfget. destruct (j <=? x) eqn:E.
         - split; [intros H; apply Hpres in H; lia|intros [_ H]; apply Hpres; exact H].
         - split; [intros H; contradiction|lia]. }
    destruct (0 <? n) eqn:E1; [|lia].
    destruct (remove_originals_spec file_ok mid (S (N.to_nat mid)) (k_data k) n Hda Hdok) as (A1 & B1 & C1); [lia|].
    destruct (remove_originals (k_data k) (S (N.to_nat mid)) n mid) as [data1 ev1]. cbn [fst] in *.
    destruct (rename_rewritten_spec file_ok n (S (N.to_nat mid)) data1 (m_files md) 0 A1 B1 Hmfa Hmfok) as (A2 & B2 & C2); [lia|].
    destruct (rename_rewritten data1 (m_files md) (S (N.to_nat mid)) 0 n) as [[data2 mf2] ev2]. cbn [fst] in *.
    rewrite Hh'. eexists _, _. split; [reflexivity|]. split; [exact A2|]. split; [exact B2|].
    apply Hfinal; [exact A2|]. intros x. rewrite C2, C1, Hmfget. destruct (x <? n) eqn:Ex.
    + assert (H0 : (0 <=? x) = true) by lia. rewrite H0. cbn [andb].
      assert (H1 : (n <=? x) = false) by lia. rewrite H1. cbn [andb].
      destruct (j <=? x) eqn:Ejx.
      * destruct (older_get MFull x) as [g|] eqn:Eg; [reflexivity|].
        exfalso. assert (Hx : x < n) by lia. apply Hpres in Hx. contradiction.
      * apply Hinst. lia.
    + rewrite Bool.andb_false_r. destruct (x <? mid) eqn:Ex2.
      * assert (H0 : (n <=? x) = true) by lia. rewrite H0. reflexivity.
      * rewrite Bool.andb_false_r. reflexivity.
Qed.
