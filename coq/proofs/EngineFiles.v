(* EngineFiles.v — record-level files: appending keeps old positions readable and makes the
   new position readable; handle operations do not touch the records. *)
From Coq Require Import ZArith Lia ZifyN ZifyNat ZifyBool.
From KV Require Import Bytes GenConsts Chunk Record Engine BytesLemmas ChunkProofs FramingProofs FileProofs.
Open Scope N_scope.
Ltac Zify.zify_post_hook ::= Z.div_mod_to_equations.

Definition pstart (p : pos) : N := p_bid p * blockSize + p_off p.

Definition wf_lfile (f : lfile) : Prop :=
  forall r p, In (r, p) (lf_recs f) ->
    pstart p < lf_size f /\ p_off p < blockSize /\ pstart p + p_size p <= lf_size f /\ 0 < p_size p.

Lemma wf_lf_empty : wf_lfile lf_empty.
Proof. intros r p []. Qed.

(* ---- frame arithmetic facts used by the engine ------------------------------------- *)
Lemma rec_len_pos r : 0 < rec_len r.
Proof. unfold rec_len, encoded_len. lia. Qed.

Lemma nchunks_pos room n : 0 < n -> 0 < nchunks room n.
Proof. intros H. rewrite nchunks_unfold. destruct (n =? 0) eqn:E; [lia|]. destruct (n <=? room); lia. Qed.

Lemma frame_props fid bid bsz n p b' s' :
  bsz < blockSize -> 0 < n -> frame fid bid bsz n = (p, b', s') ->
  p_fid p = fid /\ p_off p < blockSize /\ bid * blockSize + bsz <= pstart p /\
  pstart p + p_size p = b' * blockSize + s' /\ 0 < p_size p /\ s' < blockSize.
Proof.
  intros Hwf Hn Hfr. rewrite frame_unfold in Hfr by assumption.
  injection Hfr as <- <- <-. cbn [p_fid p_off p_bid p_size]. unfold pstart. cbn [p_bid p_off].
  pose proof (nchunks_pos (blockSize - snd (norm bid bsz) - chunkHeaderSize) n Hn) as Hc.
  set (c := nchunks (blockSize - snd (norm bid bsz) - chunkHeaderSize) n) in *.
  destruct (norm_cases bid bsz Hwf) as [(_ & Hnm & Hlt)|(_ & Hnm & Hge)]; rewrite Hnm; cbn [fst snd];
    rewrite blockSize_val, chunkHeaderSize_val in *; repeat split; lia.
Qed.

(* ---- handle operations ------------------------------------------------------------------ *)
Lemma h_remap_same nm f base n :
  lf_recs (fst (h_remap nm f base n)) = lf_recs f /\ lf_size (fst (h_remap nm f base n)) = lf_size f.
Proof. unfold h_remap. destruct (_ <=? _); [auto|]. destruct (_ <? _); auto. Qed.

Lemma h_write_spec io nm f rs n :
  lf_recs (fst (h_write io nm f rs n)) = lf_recs f ++ rs /\
  lf_size (fst (h_write io nm f rs n)) = lf_size f + n.
Proof.
  unfold h_write. destruct (io =? io_MMap).
  - destruct (h_remap_same nm f (lf_size f) n) as [H1 H2].
    destruct (h_remap nm f (lf_size f) n) as [f1 evs]. cbn [fst] in *. rewrite H1, H2. auto.
  - auto.
Qed.
Lemma h_sync_same nm f :
  lf_recs (fst (h_sync nm f)) = lf_recs f /\ lf_size (fst (h_sync nm f)) = lf_size f.
Proof. auto. Qed.
Lemma h_read_same io nm f off n :
  lf_recs (fst (h_read io nm f off n)) = lf_recs f /\ lf_size (fst (h_read io nm f off n)) = lf_size f.
Proof. unfold h_read. destruct (io =? io_MMap); [apply h_remap_same|auto]. Qed.
Lemma h_open_new io nm :
  lf_recs (fst (h_open io nm false lf_empty)) = [] /\ lf_size (fst (h_open io nm false lf_empty)) = 0.
Proof.
  unfold h_open. destruct (io =? io_MMap).
  - set (f0 := mkLf _ _ _ _ _ _).
    destruct (h_remap_same nm f0 (lf_phys lf_empty) mmapBlockSize) as [H1 H2].
    destruct (h_remap nm f0 (lf_phys lf_empty) mmapBlockSize) as [f1 evs]. cbn [fst] in *.
    rewrite H1, H2. auto.
  - auto.
Qed.

(* ---- lookup by position --------------------------------------------------------------------- *)
Lemma lookup_app rs r p b o :
  lf_lookup (rs ++ [(r, p)]) b o =
    match lf_lookup rs b o with
    | Some x => Some x
    | None => if (p_bid p =? b) && (p_off p =? o) then Some r else None
    end.
Proof.
  induction rs as [|[r0 p0] rs IH]; cbn [app lf_lookup]; [reflexivity|].
  destruct ((p_bid p0 =? b) && (p_off p0 =? o)); [reflexivity|exact IH].
Qed.

Lemma lookup_none_beyond rs sz b o :
  (forall r p, In (r, p) rs -> pstart p < sz /\ p_off p < blockSize) ->
  sz <= b * blockSize + o -> o < blockSize -> lf_lookup rs b o = None.
Proof.
  intros Hwf Hsz Ho. induction rs as [|[r0 p0] rs IH]; [reflexivity|].
  cbn [lf_lookup].
  destruct ((p_bid p0 =? b) && (p_off p0 =? o)) eqn:E.
  - exfalso. destruct (Hwf r0 p0 (or_introl eq_refl)) as [H1 H2]. unfold pstart in H1. lia.
  - apply IH. intros r p Hin. apply (Hwf r p). right. exact Hin.
Qed.

Lemma lookup_in rs b o r : lf_lookup rs b o = Some r -> exists p, In (r, p) rs /\ p_bid p = b /\ p_off p = o.
Proof.
  induction rs as [|[r0 p0] rs IH]; cbn [lf_lookup]; [discriminate|].
  destruct ((p_bid p0 =? b) && (p_off p0 =? o)) eqn:E.
  - intros [= ->]. exists p0. split; [left; reflexivity|lia].
  - intros H. destruct (IH H) as (p & Hin & Hb). exists p. split; [right; exact Hin|exact Hb].
Qed.

(* ---- appending one record ---------------------------------------------------------------- *)
Lemma lf_append_spec io nm fid f r f' p evs :
  wf_lfile f -> lf_append io nm fid f r = (f', p, evs) ->
  wf_lfile f' /\ lf_recs f' = lf_recs f ++ [(r, p)] /\ p_fid p = fid /\
  lf_size f <= pstart p /\ p_off p < blockSize /\ lf_size f' = pstart p + p_size p /\ 0 < p_size p /\
  lf_lookup (lf_recs f) (p_bid p) (p_off p) = None.
Proof.
  intros Hwf Happ. unfold lf_append in Happ.
  destruct (frame fid (lf_bid f) (lf_bsz f) (rec_len r)) as [[p0 b'] s'] eqn:Hfr.
  set (n := b' * blockSize + s' - lf_size f) in *.
  destruct (h_write_spec io nm f [(r, p0)] n) as [Hrecs Hsize].
  destruct (h_write io nm f [(r, p0)] n) as [f1 ev1]. cbn [fst] in *.
  injection Happ as <- <- <-.
  assert (Hbsz : lf_bsz f < blockSize) by (unfold lf_bsz; rewrite blockSize_val; lia).
  destruct (frame_props _ _ _ _ _ _ _ Hbsz (rec_len_pos r) Hfr) as (Hfid & Hoff & Hge & Hend & Hsz & Hs').
  assert (Hcur : lf_bid f * blockSize + lf_bsz f = lf_size f)
    by (unfold lf_bid, lf_bsz; rewrite blockSize_val; lia).
  assert (Hnew : lf_size f1 = pstart p0 + p_size p0) by (rewrite Hsize; unfold n; lia).
  assert (Hnone : lf_lookup (lf_recs f) (p_bid p0) (p_off p0) = None).
  { apply (lookup_none_beyond _ (lf_size f)); [|unfold pstart in Hge; lia|exact Hoff].
    intros r1 p1 Hin. destruct (Hwf r1 p1 Hin) as (A & B & _). auto. }
  split; [|repeat split; try assumption; try lia].
  intros r1 p1 Hin. rewrite Hrecs in Hin. apply in_app_or in Hin. destruct Hin as [Hin|[Heq|[]]].
  - destruct (Hwf r1 p1 Hin) as (H1 & H2 & H3 & H4). repeat split; try assumption; lia.
  - injection Heq as <- <-. repeat split; try assumption; lia.
Qed.

(* positions of one file are distinct: a lookup of an old position is not disturbed by an append *)
Lemma lookup_after_append rs r p b o :
  lf_lookup rs (p_bid p) (p_off p) = None ->
  forall x, lf_lookup rs b o = Some x -> lf_lookup (rs ++ [(r, p)]) b o = Some x.
Proof. intros _ x H. rewrite lookup_app, H. reflexivity. Qed.
Lemma lookup_new rs r p :
  lf_lookup rs (p_bid p) (p_off p) = None -> lf_lookup (rs ++ [(r, p)]) (p_bid p) (p_off p) = Some r.
Proof. intros H. rewrite lookup_app, H, !N.eqb_refl. reflexivity. Qed.
