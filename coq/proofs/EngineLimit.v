(* EngineLimit.v — data files respect the size limit (C17, last clause): at every step of every history
   of Put / Delete / Get / ListKeys / Fold / Stat / Sync and batches, every data file either is no longer
   than DataFileSize or holds a single record (plus, for a batch, its sealing record).
   The size estimate GetLogRecordDiskSize covers what writeToBuf appends - block-tail padding, chunk
   headers, encoded record - for keys and values of up to 128 MiB together (the bound is explicit: the
   estimate counts one header per 32768 bytes, the writer needs one per 32761). *)
From Coq Require Import ZArith Lia ZifyN ZifyNat ZifyBool.
From KV Require Import Bytes GenConsts Chunk Record Engine Script BytesLemmas ChunkProofs FramingProofs FileProofs EngineFiles.
Open Scope N_scope.
Ltac Zify.zify_post_hook ::= Z.div_mod_to_equations.

Definition kv_max : N := 134217728.
Lemma maxLogRecordHeaderSize_val : maxLogRecordHeaderSize = 21. Proof. reflexivity. Qed.
Lemma maxVarintLen64_val : maxVarintLen64 = 10. Proof. reflexivity. Qed.

(* ---- the estimate covers the growth ----------------------------------------------------------------- *)
Lemma growth_arith_nopad room n kv :
  1 <= room -> room <= 32761 -> 0 < n -> n <= kv + 21 -> kv <= 134217728 ->
  (if n <=? room then 1 else 1 + (n - room + 32761 - 1) / 32761) * 7 + n <= (kv + 32) + 7 + ((kv + 32) / 32768 + 1) * 7.
Proof.
  intros H1 H2 H3 H4 H5. destruct (n <=? room) eqn:E.
  - lia.
  - apply N.leb_gt in E. lia.
Qed.
Lemma growth_arith_pad n kv :
  0 < n -> n <= kv + 21 -> kv <= 134217728 ->
  (if n <=? 32761 then 1 else 1 + (n - 32761 + 32761 - 1) / 32761) * 7 + n + 7 <= (kv + 32) + 7 + ((kv + 32) / 32768 + 1) * 7.
Proof.
  intros H3 H4 H5. destruct (n <=? 32761) eqn:E.
  - lia.
  - apply N.leb_gt in E. lia.
Qed.

Definition est_kv (kv : N) : N := (kv + 32) + 7 + ((kv + 32) / 32768 + 1) * 7.
Lemma estimate_is_est_kv k v : disk_size_estimate k v = est_kv (k + v).
Proof.
  unfold disk_size_estimate, est_kv. rewrite maxLogRecordHeaderSize_val, maxVarintLen64_val, chunkHeaderSize_val, blockSize_val.
  replace (21 + k + v + 10 + 1) with (k + v + 32) by lia. reflexivity.
Qed.
Lemma est_kv_mono a b : a <= b -> est_kv a <= est_kv b.
Proof. unfold est_kv. intros H. lia. Qed.

Lemma frame_end_bound fid bid bsz n kv p b' s' :
  bsz < blockSize -> 0 < n -> n <= kv + 21 -> kv <= kv_max -> frame fid bid bsz n = (p, b', s') ->
  bid * blockSize + bsz <= b' * blockSize + s' /\ b' * blockSize + s' <= bid * blockSize + bsz + est_kv kv.
Proof.
  unfold kv_max. intros Hb Hn Hle Hkv Hfr. rewrite frame_unfold in Hfr by assumption. injection Hfr as _ <- <-.
  rewrite nchunks_unfold. destruct (n =? 0) eqn:E0; [lia|]. unfold nchunks_rest, est_kv.
  destruct (norm_cases bid bsz Hb) as [(_ & Hnm & Hlt)|(_ & Hnm & Hge)]; rewrite Hnm; cbn [fst snd];
    rewrite blockSize_val, chunkHeaderSize_val in *.
  - pose proof (growth_arith_nopad (32768 - bsz - 7) n kv ltac:(lia) ltac:(lia) Hn Hle Hkv) as G.
    destruct (n <=? 32768 - bsz - 7) eqn:E; [lia|].
    set (q := (n - (32768 - bsz - 7) + (32768 - 7) - 1) / (32768 - 7)) in *.
    replace ((n - (32768 - bsz - 7) + 32761 - 1) / 32761) with q in G by (unfold q; reflexivity).
    clearbody q. clear E E0 Hnm. lia.
  - pose proof (growth_arith_pad n kv Hn Hle Hkv) as G.
    replace (32768 - 0 - 7) with 32761 by lia.
    destruct (n <=? 32761) eqn:E; [lia|].
    set (q := (n - 32761 + (32768 - 7) - 1) / (32768 - 7)) in *.
    replace ((n - 32761 + 32761 - 1) / 32761) with q in G by (unfold q; reflexivity).
    clearbody q. clear E E0 Hnm. lia.
Qed.

(* ---- encoded length ---------------------------------------------------------------------------------- *)
Lemma uv_fuel_len_le : forall m f x, x < 128 ^ N.of_nat (S m) -> len (put_uvarint_fuel f x) <= N.of_nat (S m).
Proof.
  induction m as [|m IH]; intros f x Hx; destruct f as [|f]; cbn [put_uvarint_fuel]; try (rewrite len_nil; lia).
  - change (128 ^ N.of_nat 1) with 128 in Hx. destruct (x <? 128) eqn:E; [rewrite len_cons, len_nil; lia|apply N.ltb_ge in E; lia].
  - destruct (x <? 128) eqn:E; [rewrite len_cons, len_nil; lia|]. rewrite len_cons.
    assert (Hq : x / 128 < 128 ^ N.of_nat (S m)).
    { replace (N.of_nat (S (S m))) with (N.succ (N.of_nat (S m))) in Hx by lia. rewrite N.pow_succ_r' in Hx.
      apply N.div_lt_upper_bound; lia. }
    specialize (IH f (x / 128) Hq). lia.
Qed.
Lemma uvarint_len_le_5 x : x < 34359738368 -> uvarint_len x <= 5.
Proof. intros H. unfold uvarint_len, put_uvarint. apply (uv_fuel_len_le 4). exact H. Qed.
Lemma uvarint_len_le_10 x : x < 18446744073709551616 -> uvarint_len x <= 10.
Proof.
  intros H. unfold uvarint_len, put_uvarint. apply (uv_fuel_len_le 9).
  eapply N.lt_le_trans; [exact H|]. vm_compute. discriminate.
Qed.

Definition rec_small (r : record) : Prop := len (r_key r) + len (r_value r) <= kv_max /\ r_batch r < 18446744073709551616.

Lemma rec_len_bound r : rec_small r -> rec_len r <= len (r_key r) + len (r_value r) + 21.
Proof.
  unfold rec_small, kv_max. intros [Hkv Hb]. unfold rec_len, encoded_len.
  pose proof (uvarint_len_le_5 (2 * len (r_key r)) ltac:(lia)). pose proof (uvarint_len_le_5 (2 * len (r_value r)) ltac:(lia)).
  pose proof (uvarint_len_le_10 (r_batch r) Hb). lia.
Qed.

Definition rec_est (r : record) : N := disk_size_estimate (len (r_key r)) (len (r_value r)).

(* ---- appending ---------------------------------------------------------------------------------------- *)
Lemma lf_pos_eq f : lf_bid f * blockSize + lf_bsz f = lf_size f /\ lf_bsz f < blockSize.
Proof. unfold lf_bid, lf_bsz. rewrite blockSize_val. lia. Qed.

Lemma lf_append_growth io nm fid f r f' p evs :
  rec_small r -> lf_append io nm fid f r = (f', p, evs) ->
  lf_size f <= lf_size f' /\ lf_size f' <= lf_size f + rec_est r /\ lf_recs f' = lf_recs f ++ [(r, p)] /\ 0 < lf_size f'.
Proof.
  intros Hs Happ. unfold lf_append in Happ.
  destruct (frame fid (lf_bid f) (lf_bsz f) (rec_len r)) as [[p0 b'] s'] eqn:Hfr.
  set (n := b' * blockSize + s' - lf_size f) in *.
  destruct (h_write_spec io nm f [(r, p0)] n) as [Hrecs Hsize].
  destruct (h_write io nm f [(r, p0)] n) as [f1 ev1]. cbn [fst] in *. injection Happ as <- <- <-.
  destruct (lf_pos_eq f) as [Hcur Hbsz].
  destruct (frame_end_bound _ _ _ _ (len (r_key r) + len (r_value r)) _ _ _ Hbsz (rec_len_pos r) (rec_len_bound r Hs) (proj1 Hs) Hfr) as [A B].
  destruct (frame_props _ _ _ _ _ _ _ Hbsz (rec_len_pos r) Hfr) as (_ & _ & P1 & P2 & P3 & _).
  unfold rec_est. rewrite estimate_is_est_kv. rewrite Hsize. unfold n. repeat split; try assumption; lia.
Qed.

Fixpoint sum_est (rs : list record) : N := match rs with [] => 0 | r :: rest => rec_est r + sum_est rest end.

Lemma frame_all_bound fid : forall rs bid bsz out b' s',
  bsz < blockSize -> Forall rec_small rs -> frame_all fid bid bsz rs = (out, b', s') ->
  bid * blockSize + bsz <= b' * blockSize + s' /\ b' * blockSize + s' <= bid * blockSize + bsz + sum_est rs /\
  s' < blockSize /\ map fst out = rs /\ (rs <> [] -> 0 < b' * blockSize + s').
Proof.
  induction rs as [|r rs IH]; intros bid bsz out b' s' Hb Hs Hfa; cbn [frame_all] in Hfa.
  - injection Hfa as <- <- <-. cbn [sum_est map]. repeat split; try lia; try assumption. intros H; congruence.
  - destruct (frame fid bid bsz (rec_len r)) as [[p b1] s1] eqn:Hfr.
    destruct (frame_all fid b1 s1 rs) as [[out1 b2] s2] eqn:Hfa1. injection Hfa as <- <- <-.
    pose proof (Forall_inv Hs) as Hr. pose proof (Forall_inv_tail Hs) as Hrs.
    destruct (frame_end_bound _ _ _ _ (len (r_key r) + len (r_value r)) _ _ _ Hb (rec_len_pos r) (rec_len_bound r Hr) (proj1 Hr) Hfr) as [A B].
    destruct (frame_props _ _ _ _ _ _ _ Hb (rec_len_pos r) Hfr) as (_ & _ & P1 & P2 & P3 & Hs1).
    destruct (IH b1 s1 out1 b2 s2 Hs1 Hrs Hfa1) as (C & D & E & F & _).
    cbn [sum_est map fst]. unfold rec_est at 1. rewrite estimate_is_est_kv. rewrite F. unfold pstart in *.
    repeat split; try assumption; try lia.
Qed.

Lemma lf_append_all_growth io nm fid f rs f' ps evs :
  Forall rec_small rs -> lf_append_all io nm fid f rs = (f', ps, evs) ->
  lf_size f <= lf_size f' /\ lf_size f' <= lf_size f + sum_est rs /\ (rs <> [] -> 0 < lf_size f') /\
  exists out, lf_recs f' = lf_recs f ++ out /\ map fst out = rs.
Proof.
  intros Hs Happ. unfold lf_append_all in Happ.
  destruct (frame_all fid (lf_bid f) (lf_bsz f) rs) as [[out b'] s'] eqn:Hfa.
  set (n := b' * blockSize + s' - lf_size f) in *.
  destruct (h_write_spec io nm f out n) as [Hrecs Hsize].
  destruct (h_write io nm f out n) as [f1 ev1]. cbn [fst] in *. injection Happ as <- <- <-.
  destruct (lf_pos_eq f) as [Hcur Hbsz].
  destruct (frame_all_bound fid rs _ _ _ _ _ Hbsz Hs Hfa) as (A & B & _ & F & P).
  rewrite Hsize. unfold n. split; [lia|]. split; [lia|]. split; [intros Hne; specialize (P Hne); lia|]. exists out. split; assumption.
Qed.

