(* EngineLimit.v — data files respect the size limit (C17, last clause): at every step of every history
   of Put / Delete / Get / ListKeys / Fold / Stat / Sync and batches, every data file either is no longer
   than DataFileSize or holds a single record (plus, for a batch, its sealing record).
   The size estimate GetLogRecordDiskSize covers what writeToBuf appends - block-tail padding, chunk
   headers, encoded record - for keys and values of up to 128 MiB together (the bound is explicit: the
   estimate counts one header per 32768 bytes, the writer needs one per 32761). *)
From Coq Require Import ZArith Lia ZifyN ZifyNat ZifyBool.
From KV Require Import Bytes GenConsts Chunk Record Engine Script BytesLemmas ChunkProofs FramingProofs FileProofs EngineFiles AMapLemmas EngineInv EngineBatch EngineRefine.
From KV Require EngineLog EngineRecover.
Open Scope N_scope.
Ltac Zify.zify_post_hook ::= Z.div_mod_to_equations.

Definition kv_max : N := 134217728.
Lemma maxLogRecordHeaderSize_val : maxLogRecordHeaderSize = 21. Proof. reflexivity. Qed.
Lemma maxVarintLen64_val : maxVarintLen64 = 10. Proof. reflexivity. Qed.

(* ---- the estimate covers the growth ----------------------------------------------------------------- *)
Lemma growth_arith_nopad room n kv :
  1 <= room -> room <= 32761 -> 0 < n -> n <= kv + 21 -> kv <= 134217728 ->
  (if n <=? room then 1 else 1 + (n - room + 32761 - 1) / 32761) * 7 + n <= (kv + 32) + 7 + ((kv + 32) / 32768 + 1) * 7.
Proof.
  intros H1 H2 H3 H4 H5. destruct (n <=? room) eqn:E.
  - lia.
  - apply N.leb_gt in E. lia.
Qed.
Lemma growth_arith_pad n kv :
  0 < n -> n <= kv + 21 -> kv <= 134217728 ->
  (if n <=? 32761 then 1 else 1 + (n - 32761 + 32761 - 1) / 32761) * 7 + n + 7 <= (kv + 32) + 7 + ((kv + 32) / 32768 + 1) * 7.
Proof.
  intros H3 H4 H5. destruct (n <=? 32761) eqn:E.
  - lia.
  - apply N.leb_gt in E. lia.
Qed.

Definition est_kv (kv : N) : N := (kv + 32) + 7 + ((kv + 32) / 32768 + 1) * 7.
Lemma estimate_is_est_kv k v : disk_size_estimate k v = est_kv (k + v).
Proof.
  unfold disk_size_estimate, est_kv. rewrite maxLogRecordHeaderSize_val, maxVarintLen64_val, chunkHeaderSize_val, blockSize_val.
  replace (21 + k + v + 10 + 1) with (k + v + 32) by lia. reflexivity.
Qed.
Lemma est_kv_mono a b : a <= b -> est_kv a <= est_kv b.
Proof. unfold est_kv. intros H. lia. Qed.

Lemma frame_end_bound fid bid bsz n kv p b' s' :
  bsz < blockSize -> 0 < n -> n <= kv + 21 -> kv <= kv_max -> frame fid bid bsz n = (p, b', s') ->
  bid * blockSize + bsz <= b' * blockSize + s' /\ b' * blockSize + s' <= bid * blockSize + bsz + est_kv kv.
Proof.
  unfold kv_max. intros Hb Hn Hle Hkv Hfr. rewrite frame_unfold in Hfr by assumption. injection Hfr as _ <- <-.
  rewrite nchunks_unfold. destruct (n =? 0) eqn:E0; [lia|]. unfold nchunks_rest, est_kv.
  destruct (norm_cases bid bsz Hb) as [(_ & Hnm & Hlt)|(_ & Hnm & Hge)]; rewrite Hnm; cbn [fst snd];
    rewrite blockSize_val, chunkHeaderSize_val in *.
  - pose proof (growth_arith_nopad (32768 - bsz - 7) n kv ltac:(lia) ltac:(lia) Hn Hle Hkv) as G.
    destruct (n <=? 32768 - bsz - 7) eqn:E; [lia|].
    set (q := (n - (32768 - bsz - 7) + (32768 - 7) - 1) / (32768 - 7)) in *.
    replace ((n - (32768 - bsz - 7) + 32761 - 1) / 32761) with q in G by (unfold q; reflexivity).
    clearbody q. clear E E0 Hnm. lia.
  - pose proof (growth_arith_pad n kv Hn Hle Hkv) as G.
    replace (32768 - 0 - 7) with 32761 by lia.
    destruct (n <=? 32761) eqn:E; [lia|].
    set (q := (n - 32761 + (32768 - 7) - 1) / (32768 - 7)) in *.
    replace ((n - 32761 + 32761 - 1) / 32761) with q in G by (unfold q; reflexivity).
    clearbody q. clear E E0 Hnm. lia.
Qed.

(* ---- encoded length ---------------------------------------------------------------------------------- *)
Lemma uv_fuel_len_le : forall m f x, x < 128 ^ N.of_nat (S m) -> len (put_uvarint_fuel f x) <= N.of_nat (S m).
Proof.
  induction m as [|m IH]; intros f x Hx; destruct f as [|f]; cbn [put_uvarint_fuel]; try (rewrite len_nil; lia).
  - change (128 ^ N.of_nat 1) with 128 in Hx. destruct (x <? 128) eqn:E; [rewrite len_cons, len_nil; lia|apply N.ltb_ge in E; lia].
  - destruct (x <? 128) eqn:E; [rewrite len_cons, len_nil; lia|]. rewrite len_cons.
    assert (Hq : x / 128 < 128 ^ N.of_nat (S m)).
    { replace (N.of_nat (S (S m))) with (N.succ (N.of_nat (S m))) in Hx by lia. rewrite N.pow_succ_r' in Hx.
      apply N.div_lt_upper_bound; lia. }
    specialize (IH f (x / 128) Hq). lia.
Qed.
Lemma uvarint_len_le_5 x : x < 34359738368 -> uvarint_len x <= 5.
Proof. intros H. unfold uvarint_len, put_uvarint. apply (uv_fuel_len_le 4). exact H. Qed.
Lemma uvarint_len_le_10 x : x < 18446744073709551616 -> uvarint_len x <= 10.
Proof.
  intros H. unfold uvarint_len, put_uvarint. apply (uv_fuel_len_le 9).
  eapply N.lt_le_trans; [exact H|]. vm_compute. discriminate.
Qed.

Definition rec_small (r : record) : Prop := len (r_key r) + len (r_value r) <= kv_max /\ r_batch r < 18446744073709551616.

Lemma rec_len_bound r : rec_small r -> rec_len r <= len (r_key r) + len (r_value r) + 21.
Proof.
  unfold rec_small, kv_max. intros [Hkv Hb]. unfold rec_len, encoded_len.
  pose proof (uvarint_len_le_5 (2 * len (r_key r)) ltac:(lia)). pose proof (uvarint_len_le_5 (2 * len (r_value r)) ltac:(lia)).
  pose proof (uvarint_len_le_10 (r_batch r) Hb). lia.
Qed.

Definition rec_est (r : record) : N := disk_size_estimate (len (r_key r)) (len (r_value r)).

(* ---- appending ---------------------------------------------------------------------------------------- *)
Lemma lf_pos_eq f : lf_bid f * blockSize + lf_bsz f = lf_size f /\ lf_bsz f < blockSize.
Proof. unfold lf_bid, lf_bsz. rewrite blockSize_val. lia. Qed.

Lemma lf_append_growth io nm fid f r f' p evs :
  rec_small r -> lf_append io nm fid f r = (f', p, evs) ->
  lf_size f <= lf_size f' /\ lf_size f' <= lf_size f + rec_est r /\ lf_recs f' = lf_recs f ++ [(r, p)] /\ 0 < lf_size f'.
Proof.
  intros Hs Happ. unfold lf_append in Happ.
  destruct (frame fid (lf_bid f) (lf_bsz f) (rec_len r)) as [[p0 b'] s'] eqn:Hfr.
  set (n := b' * blockSize + s' - lf_size f) in *.
  destruct (h_write_spec io nm f [(r, p0)] n) as [Hrecs Hsize].
  destruct (h_write io nm f [(r, p0)] n) as [f1 ev1]. cbn [fst] in *. injection Happ as <- <- <-.
  destruct (lf_pos_eq f) as [Hcur Hbsz].
  destruct (frame_end_bound _ _ _ _ (len (r_key r) + len (r_value r)) _ _ _ Hbsz (rec_len_pos r) (rec_len_bound r Hs) (proj1 Hs) Hfr) as [A B].
  destruct (frame_props _ _ _ _ _ _ _ Hbsz (rec_len_pos r) Hfr) as (_ & _ & P1 & P2 & P3 & _).
  unfold rec_est. rewrite estimate_is_est_kv. rewrite Hsize. unfold n. repeat split; try assumption; lia.
Qed.

Fixpoint sum_est (rs : list record) : N := match rs with [] => 0 | r :: rest => rec_est r + sum_est rest end.

Lemma frame_all_bound fid : forall rs bid bsz out b' s',
  bsz < blockSize -> Forall rec_small rs -> frame_all fid bid bsz rs = (out, b', s') ->
  bid * blockSize + bsz <= b' * blockSize + s' /\ b' * blockSize + s' <= bid * blockSize + bsz + sum_est rs /\
  s' < blockSize /\ map fst out = rs /\ (rs <> [] -> 0 < b' * blockSize + s').
Proof.
  induction rs as [|r rs IH]; intros bid bsz out b' s' Hb Hs Hfa; cbn [frame_all] in Hfa.
  - injection Hfa as <- <- <-. cbn [sum_est map]. repeat split; try lia; try assumption. intros H; congruence.
  - destruct (frame fid bid bsz (rec_len r)) as [[p b1] s1] eqn:Hfr.
    destruct (frame_all fid b1 s1 rs) as [[out1 b2] s2] eqn:Hfa1. injection Hfa as <- <- <-.
    pose proof (Forall_inv Hs) as Hr. pose proof (Forall_inv_tail Hs) as Hrs.
    destruct (frame_end_bound _ _ _ _ (len (r_key r) + len (r_value r)) _ _ _ Hb (rec_len_pos r) (rec_len_bound r Hr) (proj1 Hr) Hfr) as [A B].
    destruct (frame_props _ _ _ _ _ _ _ Hb (rec_len_pos r) Hfr) as (_ & _ & P1 & P2 & P3 & Hs1).
    destruct (IH b1 s1 out1 b2 s2 Hs1 Hrs Hfa1) as (C & D & E & F & _).
    cbn [sum_est map fst]. unfold rec_est at 1. rewrite estimate_is_est_kv. rewrite F. unfold pstart in *.
    repeat split; try assumption; try lia.
Qed.

Lemma lf_append_all_growth io nm fid f rs f' ps evs :
  Forall rec_small rs -> lf_append_all io nm fid f rs = (f', ps, evs) ->
  lf_size f <= lf_size f' /\ lf_size f' <= lf_size f + sum_est rs /\ (rs <> [] -> 0 < lf_size f') /\
  exists out, lf_recs f' = lf_recs f ++ out /\ map fst out = rs.
Proof.
  intros Hs Happ. unfold lf_append_all in Happ.
  destruct (frame_all fid (lf_bid f) (lf_bsz f) rs) as [[out b'] s'] eqn:Hfa.
  set (n := b' * blockSize + s' - lf_size f) in *.
  destruct (h_write_spec io nm f out n) as [Hrecs Hsize].
  destruct (h_write io nm f out n) as [f1 ev1]. cbn [fst] in *. injection Happ as <- <- <-.
  destruct (lf_pos_eq f) as [Hcur Hbsz].
  destruct (frame_all_bound fid rs _ _ _ _ _ Hbsz Hs Hfa) as (A & B & _ & F & P).
  rewrite Hsize. unfold n. split; [lia|]. split; [lia|]. split; [intros Hne; specialize (P Hne); lia|]. exists out. split; assumption.
Qed.

(* ---- the limit ---------------------------------------------------------------------------------------- *)
Definition single (f : lfile) : Prop :=
  match lf_recs f with
  | [_] => True
  | [_; (s, _)] => r_type s = rt_BatchFinished
  | _ => False
  end.
(* a file that holds records has a positive size; it respects the limit or holds a single record *)
Definition RSfile (f : lfile) : Prop := Forall (fun rp => rec_small (fst rp)) (lf_recs f).
Definition FL (fs : N) (f : lfile) : Prop :=
  ((lf_recs f = [] \/ 0 < lf_size f) /\ RSfile f) /\ (lf_size f <= fs \/ single f).
Definition FLdb (d : db) : Prop :=
  FL (c_fsize (d_cfg d)) (d_active d) /\ forall i f, In (i, f) (d_older d) -> FL (c_fsize (d_cfg d)) f.

Lemma FL_same fs f g : lf_recs g = lf_recs f -> lf_size g = lf_size f -> FL fs f -> FL fs g.
Proof. unfold FL, single, RSfile. intros -> ->. auto. Qed.

Lemma in_older_set o : forall id f i g, In (i, g) (older_set o id f) -> (i, g) = (id, f) \/ In (i, g) o.
Proof.
  induction o as [|[j h] o IH]; intros id f i g Hin; cbn [older_set] in Hin.
  - destruct Hin as [H|[]]. left. symmetry. exact H.
  - destruct (j =? id) eqn:E.
    + destruct Hin as [H|H]; [left; symmetry; exact H|right; right; exact H].
    + destruct (id <? j).
      * destruct Hin as [H|H]; [left; symmetry; exact H|right; exact H].
      * destruct Hin as [H|H]; [right; left; exact H|]. destruct (IH _ _ _ _ H) as [A|A]; [left; exact A|right; right; exact A].
Qed.

Lemma db_rotate_FL d d' evs : FLdb d -> db_rotate d = (d', evs) ->
  FLdb d' /\ lf_size (d_active d') = 0 /\ lf_recs (d_active d') = [] /\ d_cfg d' = d_cfg d.
Proof.
  intros [Ha Ho] Hr. unfold db_rotate in Hr.
  destruct (h_sync_same (FData (d_active_id d)) (d_active d)) as [S1 S2].
  destruct (h_sync (FData (d_active_id d)) (d_active d)) as [a ev1]. cbn [fst] in *.
  destruct (h_open_new (io_of d) (FData (d_active_id d + 1))) as [O1 O2].
  destruct (h_open (io_of d) (FData (d_active_id d + 1)) false lf_empty) as [n ev2]. cbn [fst] in *.
  injection Hr as <- <-. unfold FLdb. cbn [d_active d_cfg d_older].
  split; [|split; [exact O2|split; [exact O1|reflexivity]]].
  split.
  - split; [split; [left; exact O1|unfold RSfile; rewrite O1; constructor]|left; rewrite O2; lia].
  - intros i0 f0 Hin. apply in_older_set in Hin. destruct Hin as [E|Hin]; [|exact (Ho i0 f0 Hin)].
    injection E as -> ->. exact (FL_same _ _ _ S1 S2 Ha).
Qed.

Lemma FLdb_set_active d a : FLdb d -> FL (c_fsize (d_cfg d)) a -> FLdb (set_active d (d_active_id d) a).
Proof. intros [_ Ho] Ha. split; [exact Ha|exact Ho]. Qed.

(* the file-level core of every append: given where the file stands, what it looks like afterwards *)
Lemma FL_after_append fs f f' (sum : N) (out : list (record * pos)) :
  FL fs f -> lf_size f <= lf_size f' -> lf_size f' <= lf_size f + sum -> (out <> [] -> 0 < lf_size f') ->
  (out = [] -> lf_size f' = lf_size f) ->
  lf_recs f' = lf_recs f ++ out -> Forall (fun rp => rec_small (fst rp)) out ->
  (lf_size f + sum <= fs \/ (lf_size f = 0 /\ (length out <= 1)%nat)) ->
  FL fs f'.
Proof.
  intros [[Hz Hrs] Hl] G1 G2 Gp Hnil Hrecs Hsm Hcase. split.
  - split; [|unfold RSfile; rewrite Hrecs; apply Forall_app; split; assumption].
    destruct out as [|x out]; [|right; apply Gp; discriminate].
    rewrite app_nil_r in Hrecs. destruct Hz as [Hz|Hz]; [left; congruence|right; lia].
  - destruct Hcase as [Hfit|[Hzero Hone]]; [left; lia|].
    destruct Hz as [Hz|Hz]; [|lia]. rewrite Hz in Hrecs. cbn [app] in Hrecs.
    destruct out as [|x [|y out]]; [left; rewrite (Hnil eq_refl); lia| |cbn in Hone; lia].
    right. unfold single. rewrite Hrecs. exact I.
Qed.

(* appendLogRecord keeps the limit *)
Lemma db_append_FL d r d' p evs : FLdb d -> rec_small r -> db_append d r = (d', p, evs) -> FLdb d' /\ d_cfg d' = d_cfg d.
Proof.
  intros HF Hs Ha. unfold db_append in Ha.
  set (est := disk_size_estimate (len (r_key r)) (len (r_value r))) in *.
  assert (Hcore : forall d1, FLdb d1 -> d_cfg d1 = d_cfg d ->
            (lf_size (d_active d1) + est <= c_fsize (d_cfg d) \/ (lf_size (d_active d1) = 0 /\ lf_recs (d_active d1) = [])) ->
            forall a p0 ev2, lf_append (io_of d1) (FData (d_active_id d1)) (d_active_id d1) (d_active d1) r = (a, p0, ev2) ->
            FL (c_fsize (d_cfg d1)) a).
  { intros d1 HF1 Hc Hcase a p0 ev2 Eapp. destruct (lf_append_growth _ _ _ _ _ _ _ _ Hs Eapp) as (G1 & G2 & G3 & G4).
    rewrite Hc. apply (FL_after_append _ (d_active d1) a (rec_est r) [(r, p0)]); try assumption.
    - rewrite <- Hc. exact (proj1 HF1).
    - intros _. exact G4.
    - discriminate.
    - constructor; [exact Hs|constructor].
    - unfold rec_est. fold est. destruct Hcase as [A|[A _]]; [left; exact A|right; split; [exact A|cbn; lia]]. }
  destruct (c_fsize (d_cfg d) <? lf_size (d_active d) + est) eqn:Efit.
  - destruct (db_rotate d) as [d1 ev1] eqn:Er. destruct (db_rotate_FL d d1 ev1 HF Er) as (HF1 & Z1 & Z2 & Hc).
    destruct (lf_append (io_of d1) (FData (d_active_id d1)) (d_active_id d1) (d_active d1) r) as [[a p0] ev2] eqn:Eapp.
    pose proof (Hcore d1 HF1 Hc (or_intror (conj Z1 Z2)) a p0 ev2 Eapp) as Hfa.
    destruct ((c_sync (d_cfg d1) =? sync_Always) || ((c_sync (d_cfg d1) =? sync_Threshold) && (c_bps (d_cfg d1) <=? d_bytes_write d1 + p_size p0))).
    + destruct (h_sync_same (FData (d_active_id d1)) a) as [S1 S2].
      destruct (h_sync (FData (d_active_id d1)) a) as [a' ev3]. cbn [fst] in *. injection Ha as <- <- <-.
      split; [|exact Hc]. apply (FLdb_set_active d1 a' HF1). exact (FL_same _ _ _ S1 S2 Hfa).
    + injection Ha as <- <- <-. split; [|exact Hc]. exact (FLdb_set_active d1 a HF1 Hfa).
  - apply N.ltb_ge in Efit.
    destruct (lf_append (io_of d) (FData (d_active_id d)) (d_active_id d) (d_active d) r) as [[a p0] ev2] eqn:Eapp.
    pose proof (Hcore d HF eq_refl (or_introl Efit) a p0 ev2 Eapp) as Hfa.
    destruct ((c_sync (d_cfg d) =? sync_Always) || ((c_sync (d_cfg d) =? sync_Threshold) && (c_bps (d_cfg d) <=? d_bytes_write d + p_size p0))).
    + destruct (h_sync_same (FData (d_active_id d)) a) as [S1 S2].
      destruct (h_sync (FData (d_active_id d)) a) as [a' ev3]. cbn [fst] in *. injection Ha as <- <- <-.
      split; [|reflexivity]. apply (FLdb_set_active d a' HF). exact (FL_same _ _ _ S1 S2 Hfa).
    + injection Ha as <- <- <-. split; [|reflexivity]. exact (FLdb_set_active d a HF Hfa).
Qed.

(* ---- reads change no file's size or records -------------------------------------------------------- *)
Lemma older_get_in o : forall id f, older_get o id = Some f -> In (id, f) o.
Proof.
  induction o as [|[j h] o IH]; intros id f H; cbn [older_get] in H; [discriminate|].
  destruct (j =? id) eqn:E; [apply N.eqb_eq in E; injection H as <-; subst j; left; reflexivity|right; apply IH; exact H].
Qed.

Lemma db_read_FL d p d' v evs : FLdb d -> db_read d p = (d', v, evs) -> FLdb d' /\ d_cfg d' = d_cfg d.
Proof.
  intros [Ha Ho] Hr. unfold db_read in Hr. destruct (p_fid p =? d_active_id d).
  - set (sp := read_span (d_active d) p) in *.
    destruct (h_read_same (io_of d) (FData (d_active_id d)) (d_active d) (fst sp) (snd sp)) as [R1 R2].
    destruct (h_read (io_of d) (FData (d_active_id d)) (d_active d) (fst sp) (snd sp)) as [a ev]. cbn [fst] in *.
    assert (HF : FLdb (set_active d (d_active_id d) a)) by (split; [exact (FL_same _ _ _ R1 R2 Ha)|exact Ho]).
    destruct (lf_lookup (lf_recs a) (p_bid p) (p_off p)); injection Hr as <- _ _; split; try exact HF; reflexivity.
  - destruct (older_get (d_older d) (p_fid p)) as [f|] eqn:Eg.
    + set (sp := read_span f p) in *.
      destruct (h_read_same (io_of d) (FData (p_fid p)) f (fst sp) (snd sp)) as [R1 R2].
      destruct (h_read (io_of d) (FData (p_fid p)) f (fst sp) (snd sp)) as [f' ev]. cbn [fst] in *.
      assert (HF : FLdb (set_older d (older_set (d_older d) (p_fid p) f'))).
      { split; [exact Ha|]. cbn [d_older set_older d_cfg]. intros i g Hin. apply in_older_set in Hin.
        destruct Hin as [E|Hin]; [|exact (Ho i g Hin)]. injection E as -> ->.
        exact (FL_same _ _ _ R1 R2 (Ho _ _ (older_get_in _ _ _ Eg))). }
      destruct (lf_lookup (lf_recs f') (p_bid p) (p_off p)); injection Hr as <- _ _; split; try exact HF; reflexivity.
    + injection Hr as <- _ _. split; [split; assumption|reflexivity].
Qed.

Lemma db_get_FL d k d' v evs : FLdb d -> db_get d k = (d', v, evs) -> FLdb d' /\ d_cfg d' = d_cfg d.
Proof.
  intros HF Hg. unfold db_get in Hg. destruct (len k =? 0); [injection Hg as <- _ _; auto|].
  destruct (idx_get (d_index d) k) as [p|]; [exact (db_read_FL _ _ _ _ _ HF Hg)|injection Hg as <- _ _; auto].
Qed.

Lemma db_fold_aux_FL : forall ix d d' r evs, FLdb d -> db_fold_aux d ix = (d', r, evs) -> FLdb d' /\ d_cfg d' = d_cfg d.
Proof.
  induction ix as [|[k p] ix IH]; intros d d' r evs HF Hf; cbn [db_fold_aux] in Hf; [injection Hf as <- _ _; auto|].
  destruct (db_read d p) as [[d1 v] ev1] eqn:Er. destruct (db_read_FL _ _ _ _ _ HF Er) as [HF1 Hc1].
  destruct v as [val|e]; [|injection Hf as <- _ _; auto].
  destruct (db_fold_aux d1 ix) as [[d2 rest] ev2] eqn:Ef. destruct (IH _ _ _ _ HF1 Ef) as [HF2 Hc2].
  destruct rest; injection Hf as <- _ _; split; try assumption; congruence.
Qed.

Lemma db_sync_FL d d' evs : FLdb d -> db_sync d = (d', evs) -> FLdb d' /\ d_cfg d' = d_cfg d.
Proof.
  intros [Ha Ho] Hs. unfold db_sync in Hs. destruct (h_sync_same (FData (d_active_id d)) (d_active d)) as [S1 S2].
  destruct (h_sync (FData (d_active_id d)) (d_active d)) as [a ev]. cbn [fst] in *. injection Hs as <- _.
  split; [split; [exact (FL_same _ _ _ S1 S2 Ha)|exact Ho]|reflexivity].
Qed.

(* ---- Put and Delete --------------------------------------------------------------------------------- *)
Definition kv_small (k v : bytes) : Prop := len k + len v <= kv_max.

Lemma mkRec_small ty k v : kv_small k v -> rec_small (mkRec ty k v 0).
Proof. intros H. split; [exact H|cbn; lia]. Qed.

Lemma db_put_FL d k v d' e evs : FLdb d -> kv_small k v -> db_put d k v = (d', e, evs) -> FLdb d' /\ d_cfg d' = d_cfg d.
Proof.
  intros HF Hs Hp. unfold db_put in Hp. destruct (len k =? 0); [injection Hp as <- _ _; auto|].
  destruct (db_append d (mkRec rt_Normal k v 0)) as [[d1 p] ev] eqn:Ea.
  destruct (db_append_FL _ _ _ _ _ HF (mkRec_small _ _ _ Hs) Ea) as [HF1 Hc].
  destruct (idx_put (d_index d1) k p) as [ix old]. injection Hp as <- _ _. split; [exact HF1|exact Hc].
Qed.

Lemma db_delete_FL d k d' e evs : FLdb d -> len k <= kv_max -> db_delete d k = (d', e, evs) -> FLdb d' /\ d_cfg d' = d_cfg d.
Proof.
  intros HF Hs Hp. unfold db_delete in Hp. destruct (len k =? 0); [injection Hp as <- _ _; auto|].
  destruct (idx_get (d_index d) k) as [p0|]; [|injection Hp as <- _ _; auto].
  destruct (db_append d (mkRec rt_Deleted k [] 0)) as [[d1 p1] ev] eqn:Ea.
  assert (Hr : rec_small (mkRec rt_Deleted k [] 0)) by (apply mkRec_small; unfold kv_small; rewrite len_nil; lia).
  destruct (db_append_FL _ _ _ _ _ HF Hr Ea) as [HF1 Hc].
  destruct (idx_del (d_index (add_reclaim d1 (p_size p1))) k) as [ix old].
  destruct old; injection Hp as <- _ _; split; try exact HF1; exact Hc.
Qed.

(* ---- batches ------------------------------------------------------------------------------------------ *)
(* what is staged fits the file limit together with the sealing record, or it is a single record *)
Definition BI (fs : N) (b : batch) : Prop :=
  sum_est (b_staged b) <= b_cached b /\
  (sum_est (b_staged b) + maxFinRecord <= fs \/ (length (b_staged b) <= 1)%nat) /\
  Forall (fun r => len (r_key r) + len (r_value r) <= kv_max) (b_staged b) /\ b_id b < 18446744073709551616.

Lemma apply_staged_files : forall rs d,
  d_active (apply_staged d rs) = d_active d /\ d_older (apply_staged d rs) = d_older d /\ d_cfg (apply_staged d rs) = d_cfg d /\
  d_active_id (apply_staged d rs) = d_active_id d.
Proof.
  induction rs as [|[r p] rs IH]; intros d; cbn [apply_staged]; [auto|].
  destruct (r_type r =? rt_Deleted).
  - destruct (idx_del (d_index d) (r_key r)) as [ix old].
    match goal with |- context [apply_staged ?X rs] => destruct (IH X) as (A & B & C & D) end.
    rewrite A, B, C, D. auto.
  - destruct (idx_put (d_index d) (r_key r) p) as [ix old].
    match goal with |- context [apply_staged ?X rs] => destruct (IH X) as (A & B & C & D) end.
    rewrite A, B, C, D. auto.
Qed.

Definition tag (id : N) (r : record) : record := mkRec (r_type r) (r_key r) (r_value r) id.
Lemma sum_est_tag id rs : sum_est (map (tag id) rs) = sum_est rs.
Proof. induction rs as [|r rs IH]; cbn [map sum_est]; [reflexivity|]. rewrite IH. reflexivity. Qed.

Lemma batch_flush_FL d b d' b' evs : FLdb d -> BI (c_fsize (d_cfg d)) b -> batch_flush d b = (d', b', evs) ->
  FLdb d' /\ d_cfg d' = d_cfg d /\ b' = mkBatch [] 0 (b_committed b) (b_sync b) (b_id b) /\
  (b_staged b <> [] -> lf_size (d_active d') + maxFinRecord <= c_fsize (d_cfg d) \/ (exists x, lf_recs (d_active d') = [x])).
Proof.
  intros HF (Hsum & Hfit & Hsmall & Hid) Hf. unfold batch_flush in Hf.
  set (fs := c_fsize (d_cfg d)) in *. set (sz := lf_size (d_active d)) in *.
  change (map (fun r => mkRec (r_type r) (r_key r) (r_value r) (b_id b)) (b_staged b)) with (map (tag (b_id b)) (b_staged b)) in Hf.
  assert (Htag : Forall rec_small (map (tag (b_id b)) (b_staged b))).
  { apply Forall_forall. intros r Hin. apply in_map_iff in Hin. destruct Hin as (r0 & <- & Hin0).
    rewrite Forall_forall in Hsmall. split; [exact (Hsmall r0 Hin0)|exact Hid]. }
  (* the file that receives the staged records: d1's active file *)
  assert (Hpre : exists d1 ev1, (if (0 <? sz) && (fs <? sz + b_cached b + maxFinRecord) then db_rotate d else (d, [])) = (d1, ev1) /\
            FLdb d1 /\ d_cfg d1 = d_cfg d /\
            (lf_size (d_active d1) + b_cached b + maxFinRecord <= fs \/ (lf_size (d_active d1) = 0 /\ lf_recs (d_active d1) = []))).
  { destruct ((0 <? sz) && (fs <? sz + b_cached b + maxFinRecord)) eqn:Erot.
    - destruct (db_rotate d) as [d1 ev1] eqn:Er. destruct (db_rotate_FL d d1 ev1 HF Er) as (HF1 & Z1 & Z2 & Hc).
      exists d1, ev1. split; [reflexivity|]. split; [exact HF1|]. split; [exact Hc|]. right. split; assumption.
    - exists d, []. split; [reflexivity|]. split; [exact HF|]. split; [reflexivity|]. apply andb_false_iff in Erot. destruct Erot as [E|E].
      + apply N.ltb_ge in E. right. assert (Hz : sz = 0) by lia. split; [exact Hz|].
        destruct (proj1 (proj1 (proj1 HF))) as [A|A]; [exact A|fold sz in A; lia].
      + apply N.ltb_ge in E. left. exact E. }
  destruct Hpre as (d1 & ev1 & Epre & HF1 & Hc & Hcase). rewrite Epre in Hf.
  destruct (lf_append_all (io_of d1) (FData (d_active_id d1)) (d_active_id d1) (d_active d1) (map (tag (b_id b)) (b_staged b))) as [[a ps] ev2] eqn:Eapp.
  destruct (lf_append_all_growth _ _ _ _ _ _ _ _ Htag Eapp) as (G1 & G2 & Gp & out & G3 & G4). rewrite sum_est_tag in G2.
  assert (Hlen : length out = length (b_staged b)) by (rewrite <- (map_length fst out), G4, map_length; reflexivity).
  assert (Hnil : out = [] -> lf_size a = lf_size (d_active d1)).
  { intros E. subst out. cbn in G4. destruct (b_staged b); [cbn [sum_est] in G2; lia|discriminate]. }
  assert (Hfa : FL fs a).
  { apply (FL_after_append fs (d_active d1) a (sum_est (b_staged b)) out); try assumption.
    - pose proof (proj1 HF1) as H1. rewrite Hc in H1. exact H1.
    - intros Hne. apply Gp. intros E. apply Hne. destruct out; [reflexivity|]. rewrite <- G4 in E. discriminate.
    - apply Forall_forall. intros rp Hrp. rewrite Forall_forall in Htag. apply Htag. rewrite <- G4. apply in_map. exact Hrp.
    - destruct Hcase as [A|[A B]]; [left; lia|]. destruct Hfit as [F|F]; [left; lia|right; split; [exact A|rewrite Hlen; exact F]]. }
  assert (Hshape : b_staged b <> [] -> lf_size a + maxFinRecord <= fs \/ (exists x, lf_recs a = [x])).
  { intros Hne. destruct Hcase as [A|[A B]]; [left; lia|]. destruct Hfit as [F|F]; [left; lia|].
    right. rewrite G3, B. cbn [app]. destruct (b_staged b) as [|r0 [|r1 rest]]; [congruence| |cbn in F; lia].
    destruct out as [|x [|y out]]; cbn in Hlen; try discriminate. exists x. reflexivity. }
  set (a' := fst (if b_sync b then h_sync (FData (d_active_id d1)) a else (a, []))).
  assert (Ha' : lf_recs a' = lf_recs a /\ lf_size a' = lf_size a) by (unfold a'; destruct (b_sync b); [apply h_sync_same|auto]).
  destruct (if b_sync b then h_sync (FData (d_active_id d1)) a else (a, [])) as [a'' ev3] eqn:Es. cbn [fst] in a'. subst a'.
  injection Hf as <- <- <-.
  destruct (apply_staged_files (combine (map (tag (b_id b)) (b_staged b)) ps) (set_active d1 (d_active_id d1) a'')) as (A & B & C & D).
  destruct Ha' as [Hr' Hs'].
  split; [|split; [|split]].
  - unfold FLdb. rewrite A, B, C. cbn [set_active d_active d_older d_cfg]. rewrite Hc. fold fs.
    split; [exact (FL_same _ _ _ Hr' Hs' Hfa)|]. destruct HF1 as [_ Ho1]. rewrite Hc in Ho1. exact Ho1.
  - rewrite C. cbn [set_active d_cfg]. exact Hc.
  - reflexivity.
  - intros Hne. rewrite A. cbn [set_active d_active]. rewrite Hs', Hr'. exact (Hshape Hne).
Qed.

Lemma batch_flush_rotate_FL d b d' b' evs : FLdb d -> BI (c_fsize (d_cfg d)) b -> batch_flush_rotate d b = (d', b', evs) ->
  FLdb d' /\ d_cfg d' = d_cfg d /\ b' = mkBatch [] 0 (b_committed b) (b_sync b) (b_id b).
Proof.
  intros HF HB Hf. unfold batch_flush_rotate in Hf.
  destruct (batch_flush d b) as [[d1 b1] ev1] eqn:Efl. destruct (batch_flush_FL _ _ _ _ _ HF HB Efl) as (HF1 & Hc1 & Hb1 & _).
  destruct (db_rotate d1) as [d2 ev2] eqn:Er. destruct (db_rotate_FL _ _ _ HF1 Er) as (HF2 & _ & _ & Hc2).
  injection Hf as <- <- _. split; [exact HF2|]. split; [congruence|exact Hb1].
Qed.

Lemma sum_est_app a b : sum_est (a ++ b) = sum_est a + sum_est b.
Proof. induction a as [|r a IH]; cbn [app sum_est]; [reflexivity|]. rewrite IH. lia. Qed.

Lemma staged_update_sum f : forall st k r, staged_find st k = Some r ->
  sum_est (staged_update st k f) + rec_est r = sum_est st + rec_est (f r) /\
  length (staged_update st k f) = length st /\ r_key r = k /\ rec_est r <= sum_est st /\
  (forall P : record -> Prop, Forall P st -> P (f r) -> Forall P (staged_update st k f)) /\ In r st.
Proof.
  induction st as [|x st IH]; intros k r Hf; cbn [staged_find] in Hf; [discriminate|]. cbn [staged_update].
  destruct (bytes_eqb (r_key x) k) eqn:E.
  - injection Hf as <-. apply bytes_eqb_eq in E. cbn [sum_est length]. repeat split; try lia; try assumption.
    + intros P HP Hfr. constructor; [exact Hfr|exact (Forall_inv_tail HP)].
    + left. reflexivity.
  - destruct (IH k r Hf) as (A & B & C & D & F & G). cbn [sum_est length]. repeat split; try lia; try assumption.
    + intros P HP Hfr. constructor; [exact (Forall_inv HP)|apply F; [exact (Forall_inv_tail HP)|exact Hfr]].
    + right. exact G.
Qed.

Definition empty_batch_of (b : batch) : batch := mkBatch [] 0 (b_committed b) (b_sync b) (b_id b).
Lemma BI_one fs b r c : b_id b < 18446744073709551616 -> len (r_key r) + len (r_value r) <= kv_max -> rec_est r <= c ->
  BI fs (with_staged (empty_batch_of b) [r] c).
Proof.
  intros Hid Hr Hc. unfold BI, with_staged, empty_batch_of. cbn [b_staged b_cached b_id sum_est length].
  split; [lia|]. split; [right; lia|]. split; [constructor; [exact Hr|constructor]|exact Hid].
Qed.

Lemma rec_est_mk ty k v id : rec_est (mkRec ty k v id) = disk_size_estimate (len k) (len v).
Proof. reflexivity. Qed.

Lemma batch_put_FL d b k v d' b' e evs :
  FLdb d -> BI (c_fsize (d_cfg d)) b -> kv_small k v -> batch_put d b k v = (d', b', e, evs) ->
  FLdb d' /\ d_cfg d' = d_cfg d /\ BI (c_fsize (d_cfg d)) b'.
Proof.
  intros HF HB Hs Hp. unfold batch_put in Hp.
  destruct (len k =? 0); [injection Hp as <- <- _ _; auto|].
  destruct (b_committed b); [injection Hp as <- <- _ _; auto|].
  set (fs := c_fsize (d_cfg d)) in *. pose proof HB as (Hsum & Hfit & Hsmall & Hid).
  destruct (staged_find (b_staged b) k) as [r|] eqn:Efind.
  - (* the key is staged already *)
    destruct (staged_update_sum (fun r0 => mkRec rt_Normal (r_key r0) v 0) _ _ _ Efind) as (A & B & C & D & F & G).
    set (old := disk_size_estimate (len (r_key r)) (len (r_value r))) in *.
    set (new := disk_size_estimate (len k) (len v)) in *.
    change (rec_est r) with old in A, D. rewrite rec_est_mk, C in A. fold new in A.
    destruct (fs <? b_cached b + new - old + maxFinRecord) eqn:Ebig.
    + destruct (batch_flush_rotate d b) as [[d1 b1] ev1] eqn:Efl.
      destruct (batch_flush_rotate_FL _ _ _ _ _ HF HB Efl) as (HF1 & Hc1 & Hb1). injection Hp as <- <- _ _.
      split; [exact HF1|]. split; [exact Hc1|]. subst b1. cbn [b_staged b_cached app].
      apply (BI_one fs b (mkRec rt_Normal k v 0) new Hid); [exact Hs|rewrite rec_est_mk; fold new; lia].
    + apply N.ltb_ge in Ebig. injection Hp as <- <- _ _. split; [exact HF|]. split; [reflexivity|].
      unfold BI, with_staged. cbn [b_staged b_cached b_id]. split; [lia|]. split; [left; lia|]. split; [|exact Hid].
      apply F; [exact Hsmall|]. cbn [r_key r_value]. rewrite C. exact Hs.
  - set (size := disk_size_estimate (len k) (len v)) in *.
    destruct (fs <? b_cached b + size + maxFinRecord) eqn:Ebig.
    + destruct (batch_flush_rotate d b) as [[d1 b1] ev1] eqn:Efl.
      destruct (batch_flush_rotate_FL _ _ _ _ _ HF HB Efl) as (HF1 & Hc1 & Hb1). injection Hp as <- <- _ _.
      split; [exact HF1|]. split; [exact Hc1|]. subst b1. cbn [b_staged b_cached app].
      apply (BI_one fs b (mkRec rt_Normal k v 0) (0 + size) Hid); [exact Hs|rewrite rec_est_mk; fold size; lia].
    + apply N.ltb_ge in Ebig. injection Hp as <- <- _ _. split; [exact HF|]. split; [reflexivity|].
      unfold BI, with_staged. cbn [b_staged b_cached b_id]. rewrite sum_est_app. cbn [sum_est]. rewrite rec_est_mk. fold size.
      split; [lia|]. split; [left; lia|]. split; [|exact Hid].
      apply Forall_app. split; [exact Hsmall|constructor; [exact Hs|constructor]].
Qed.

Lemma est_mono k v v' : v' <= v -> disk_size_estimate k v' <= disk_size_estimate k v.
Proof. intros H. rewrite !estimate_is_est_kv. apply est_kv_mono. lia. Qed.

Lemma batch_delete_FL d b k d' b' e evs :
  FLdb d -> BI (c_fsize (d_cfg d)) b -> len k <= kv_max -> batch_delete d b k = (d', b', e, evs) ->
  FLdb d' /\ d_cfg d' = d_cfg d /\ BI (c_fsize (d_cfg d)) b'.
Proof.
  intros HF HB Hs Hp. unfold batch_delete in Hp.
  destruct (len k =? 0); [injection Hp as <- <- _ _; auto|].
  destruct (b_committed b); [injection Hp as <- <- _ _; auto|].
  set (fs := c_fsize (d_cfg d)) in *. pose proof HB as (Hsum & Hfit & Hsmall & Hid).
  destruct (staged_find (b_staged b) k) as [r|] eqn:Efind.
  - destruct (staged_update_sum (fun r0 => mkRec rt_Deleted (r_key r0) [] 0) _ _ _ Efind) as (A & B & C & D & F & G).
    injection Hp as <- <- _ _. split; [exact HF|]. split; [reflexivity|].
    assert (Hle : rec_est (mkRec rt_Deleted (r_key r) [] 0) <= rec_est r).
    { rewrite rec_est_mk. unfold rec_est. apply est_mono. rewrite len_nil. lia. }
    unfold BI, with_staged. cbn [b_staged b_cached b_id]. split; [lia|]. split; [|split; [|exact Hid]].
    + destruct Hfit as [Hf|Hf]; [left; lia|right; rewrite B; exact Hf].
    + apply F; [exact Hsmall|]. cbn [r_key r_value]. rewrite len_nil.
      rewrite Forall_forall in Hsmall. pose proof (Hsmall r G). lia.
  - destruct (idx_get (d_index d) k) as [p0|]; [|injection Hp as <- <- _ _; auto].
    set (size := disk_size_estimate (len k) 0) in *.
    assert (Hkv : len k + len (@nil byte) <= kv_max) by (rewrite len_nil; lia).
    destruct (fs <? b_cached b + size + maxFinRecord) eqn:Ebig.
    + destruct (batch_flush_rotate d b) as [[d1 b1] ev1] eqn:Efl.
      destruct (batch_flush_rotate_FL _ _ _ _ _ HF HB Efl) as (HF1 & Hc1 & Hb1). injection Hp as <- <- _ _.
      split; [exact HF1|]. split; [exact Hc1|]. subst b1. cbn [b_staged b_cached app].
      apply (BI_one fs b (mkRec rt_Deleted k [] 0) (0 + size) Hid); [exact Hkv|rewrite rec_est_mk, len_nil; fold size; lia].
    + apply N.ltb_ge in Ebig. injection Hp as <- <- _ _. split; [exact HF|]. split; [reflexivity|].
      unfold BI, with_staged. cbn [b_staged b_cached b_id]. rewrite sum_est_app. cbn [sum_est]. rewrite rec_est_mk, len_nil. fold size.
      split; [lia|]. split; [left; lia|]. split; [|exact Hid].
      apply Forall_app. split; [exact Hsmall|constructor; [exact Hkv|constructor]].
Qed.

Lemma batch_get_FL d b k d' v evs : FLdb d -> batch_get d b k = (d', v, evs) -> FLdb d' /\ d_cfg d' = d_cfg d.
Proof.
  intros HF Hg. unfold batch_get in Hg. destruct (len k =? 0); [injection Hg as <- _ _; auto|].
  destruct (b_committed b); [injection Hg as <- _ _; auto|].
  destruct (staged_find (b_staged b) k) as [r|].
  - destruct (r_type r =? rt_Deleted); injection Hg as <- _ _; auto.
  - destruct (idx_get (d_index d) k) as [p|]; [exact (db_read_FL _ _ _ _ _ HF Hg)|injection Hg as <- _ _; auto].
Qed.

(* ---- Commit: the sealing record ------------------------------------------------------------------------ *)
Lemma dec_digits_fuel_len : forall m f x acc, x < 10 ^ N.of_nat (S m) -> len (dec_digits_fuel f x acc) <= len acc + N.of_nat (S m).
Proof.
  induction m as [|m IH]; intros f x acc Hx; destruct f as [|f]; cbn [dec_digits_fuel]; try lia.
  - change (10 ^ N.of_nat 1) with 10 in Hx. destruct (x / 10 =? 0) eqn:E; [rewrite len_cons; lia|apply N.eqb_neq in E; lia].
  - destruct (x / 10 =? 0) eqn:E; [rewrite len_cons; lia|].
    assert (Hq : x / 10 < 10 ^ N.of_nat (S m)).
    { replace (N.of_nat (S (S m))) with (N.succ (N.of_nat (S m))) in Hx by lia. rewrite N.pow_succ_r' in Hx.
      apply N.div_lt_upper_bound; lia. }
    pose proof (IH f (x / 10) ((48 + x mod 10) :: acc) Hq) as H. rewrite len_cons in H. lia.
Qed.
Lemma dec_digits_len id : id < 18446744073709551616 -> len (dec_digits id) <= 20.
Proof.
  intros H. unfold dec_digits. pose proof (dec_digits_fuel_len 19 25 id [] ltac:(eapply N.lt_le_trans; [exact H|vm_compute; discriminate])) as L.
  rewrite len_nil in L. lia.
Qed.

Lemma seal_small id : id < 18446744073709551616 ->
  rec_small (mkRec rt_BatchFinished (dec_digits id) [] id) /\ rec_est (mkRec rt_BatchFinished (dec_digits id) [] id) <= maxFinRecord.
Proof.
  intros H. pose proof (dec_digits_len id H) as L. split.
  - split; [cbn [r_key r_value]; rewrite len_nil; unfold kv_max; lia|exact H].
  - rewrite rec_est_mk, len_nil, estimate_is_est_kv. unfold est_kv. change maxFinRecord with 70. lia.
Qed.

Lemma batch_commit_FL d b d' b' e evs :
  FLdb d -> BI (c_fsize (d_cfg d)) b -> batch_commit d b = (d', b', e, evs) -> FLdb d' /\ d_cfg d' = d_cfg d.
Proof.
  intros HF HB Hc. unfold batch_commit in Hc. destruct (b_committed b); [injection Hc as <- _ _ _; auto|].
  destruct (b_staged b) as [|r0 rest] eqn:Est; [injection Hc as <- _ _ _; auto|].
  set (bc := mkBatch (r0 :: rest) (b_cached b) true (b_sync b) (b_id b)) in *.
  assert (HBc : BI (c_fsize (d_cfg d)) bc).
  { destruct HB as (A & B & C & D). rewrite Est in *. unfold BI, bc. cbn [b_staged b_cached b_id]. auto. }
  destruct (batch_flush d bc) as [[d1 b1] ev1] eqn:Efl.
  destruct (batch_flush_FL _ _ _ _ _ HF HBc Efl) as (HF1 & Hc1 & _ & Hshape).
  specialize (Hshape ltac:(unfold bc; cbn; discriminate)).
  destruct HB as (_ & _ & _ & Hid). destruct (seal_small (b_id b) Hid) as [Hss Hse].
  set (seal := mkRec rt_BatchFinished (dec_digits (b_id b)) [] (b_id b)) in *.
  destruct (lf_append (io_of d1) (FData (d_active_id d1)) (d_active_id d1) (d_active d1) seal) as [[a p0] ev2] eqn:Eapp.
  destruct (lf_append_growth _ _ _ _ _ _ _ _ Hss Eapp) as (G1 & G2 & G3 & G4).
  assert (Hfa : FL (c_fsize (d_cfg d1)) a).
  { rewrite Hc1. destruct Hshape as [Hroom|(x & Hx)].
    - apply (FL_after_append _ (d_active d1) a (rec_est seal) [(seal, p0)]); try assumption.
      + pose proof (proj1 HF1) as H1. rewrite Hc1 in H1. exact H1.
      + intros _. exact G4.
      + discriminate.
      + constructor; [exact Hss|constructor].
      + left. lia.
    - split; [split; [right; exact G4|]|right; unfold single; rewrite G3, Hx; cbn [app]; reflexivity].
      unfold RSfile. rewrite G3. apply Forall_app. split; [|constructor; [exact Hss|constructor]].
      pose proof (proj1 HF1) as H1. exact (proj2 (proj1 H1)). }
  set (a' := fst (if b_sync b then h_sync (FData (d_active_id d1)) a else (a, []))).
  assert (Ha' : lf_recs a' = lf_recs a /\ lf_size a' = lf_size a) by (unfold a'; destruct (b_sync b); [apply h_sync_same|auto]).
  destruct (if b_sync b then h_sync (FData (d_active_id d1)) a else (a, [])) as [a'' ev3] eqn:Es. cbn [fst] in a'. subst a'.
  injection Hc as <- _ _ _. split; [|exact Hc1].
  apply (FLdb_set_active d1 a'' HF1). exact (FL_same _ _ _ (proj1 Ha') (proj2 Ha') Hfa).
Qed.

(* ---- Merge: the live database only rotates its active file and reads its older files ------------------ *)
Lemma scan_touch_same io nm f : lf_recs (fst (scan_touch io nm f)) = lf_recs f /\ lf_size (fst (scan_touch io nm f)) = lf_size f.
Proof. unfold scan_touch. destruct (lf_size f =? 0); [auto|apply h_read_same]. Qed.

Lemma merge_files_FL c : forall order d nm m d' res evs,
  FLdb d -> merge_files c d order nm m = (d', res, evs) -> FLdb d' /\ d_cfg d' = d_cfg d.
Proof.
  induction order as [|fid order IH]; intros d nm m d' res evs HF Hm; cbn [merge_files] in Hm; [injection Hm as <- _ _; auto|].
  destruct (older_get (d_older d) fid) as [f|] eqn:Eg; [|exact (IH _ _ _ _ _ _ HF Hm)].
  destruct (scan_touch_same (c_io c) (FData fid) f) as [S1 S2].
  destruct (scan_touch (c_io c) (FData fid) f) as [f' ev0]. cbn [fst] in *.
  set (d1 := set_older d (older_set (d_older d) fid f')) in *.
  assert (HF1 : FLdb d1).
  { destruct HF as [Ha Ho]. split; [exact Ha|]. unfold d1. cbn [d_older set_older d_cfg]. intros i g Hin. apply in_older_set in Hin.
    destruct Hin as [E|Hin]; [|exact (Ho i g Hin)]. injection E as -> ->.
    exact (FL_same _ _ _ S1 S2 (Ho _ _ (older_get_in _ _ _ Eg))). }
  destruct (merge_file c (d_index d1) fid nm m (lf_recs f')) as [r1 ev1].
  destruct r1 as [m'|e m'].
  - destruct (merge_files c d1 order nm m') as [[d2 res2] ev2] eqn:E2. destruct (IH _ _ _ _ _ _ HF1 E2) as (HF2 & Hc2).
    injection Hm as <- _ _. split; [exact HF2|exact Hc2].
  - injection Hm as <- _ _. split; [exact HF1|reflexivity].
Qed.

Lemma db_merge_FL d k order d' k' e evs : FLdb d -> db_merge d k order = (d', k', e, evs) -> FLdb d' /\ d_cfg d' = d_cfg d.
Proof.
  intros HF Hm. unfold db_merge in Hm.
  destruct (db_rotate d) as [d1 ev1] eqn:Er. destruct (db_rotate_FL _ _ _ HF Er) as (HF1 & _ & _ & Hc1).
  destruct (h_open (c_io (d_cfg d)) (MData 0) false lf_empty) as [a0 ev3].
  destruct (hf_open_new (c_io (d_cfg d))) as [h0 ev4].
  destruct (merge_files (d_cfg d) d1 order (d_active_id d1) (mkMs 0 a0 [] h0)) as [[d2 res] ev5] eqn:Emf.
  destruct (merge_files_FL _ _ _ _ _ _ _ _ HF1 Emf) as (HF2 & Hc2).
  destruct res as [m|err m].
  - destruct (hf_close (c_io (d_cfg d)) (ms_hint m)) as [h1 ev6].
    destruct (h_close (c_io (d_cfg d)) (MData (ms_active_id m)) (ms_active m)) as [a1 ev7].
    destruct (ms_close_older (c_io (d_cfg d)) (ms_older m)) as [o1 ev8].
    destruct (db_sync d2) as [d3 evS] eqn:Es. destruct (db_sync_FL _ _ _ HF2 Es) as (HF3 & Hc3).
    injection Hm as <- _ _ _. split; [exact HF3|congruence].
  - injection Hm as <- _ _ _. split; [exact HF2|congruence].
Qed.

(* ---- scripts ------------------------------------------------------------------------------------------- *)
Definition bop_small (o : bop) : Prop :=
  match o with BPut k v => kv_small k v | BDel k => len k <= kv_max | BGet _ => True end.
Definition op_small (o : op) : Prop :=
  match o with
  | OpPut k v => kv_small k v
  | OpDel k => len k <= kv_max
  | OpBatch _ id bops => id < 18446744073709551616 /\ Forall bop_small bops
  | OpRestart _ => False
  | _ => True
  end.

Lemma run_bops_FL : forall bops d b d' b' rs evs,
  FLdb d -> BI (c_fsize (d_cfg d)) b -> Forall bop_small bops -> run_bops d b bops = (d', b', rs, evs) ->
  FLdb d' /\ d_cfg d' = d_cfg d /\ BI (c_fsize (d_cfg d)) b'.
Proof.
  induction bops as [|o bops IH]; intros d b d' b' rs evs HF HB Hs Hr; cbn [run_bops] in Hr; [injection Hr as <- <- _ _; auto|].
  pose proof (Forall_inv Hs) as Ho. pose proof (Forall_inv_tail Hs) as Hrest. destruct o as [k v|k|k].
  - destruct (batch_put d b k v) as [[[d1 b1] e] ev1] eqn:E1. destruct (batch_put_FL _ _ _ _ _ _ _ _ HF HB Ho E1) as (HF1 & Hc1 & HB1).
    destruct (run_bops d1 b1 bops) as [[[d2 b2] rs2] ev2] eqn:E2. rewrite <- Hc1 in HB1.
    destruct (IH _ _ _ _ _ _ HF1 HB1 Hrest E2) as (HF2 & Hc2 & HB2). injection Hr as <- <- _ _.
    split; [exact HF2|]. split; [congruence|rewrite <- Hc1; exact HB2].
  - destruct (batch_delete d b k) as [[[d1 b1] e] ev1] eqn:E1. destruct (batch_delete_FL _ _ _ _ _ _ _ HF HB Ho E1) as (HF1 & Hc1 & HB1).
    destruct (run_bops d1 b1 bops) as [[[d2 b2] rs2] ev2] eqn:E2. rewrite <- Hc1 in HB1.
    destruct (IH _ _ _ _ _ _ HF1 HB1 Hrest E2) as (HF2 & Hc2 & HB2). injection Hr as <- <- _ _.
    split; [exact HF2|]. split; [congruence|rewrite <- Hc1; exact HB2].
  - destruct (batch_get d b k) as [[d1 v] ev1] eqn:E1. destruct (batch_get_FL _ _ _ _ _ _ HF E1) as (HF1 & Hc1).
    destruct (run_bops d1 b bops) as [[[d2 b2] rs2] ev2] eqn:E2. rewrite <- Hc1 in HB.
    destruct (IH _ _ _ _ _ _ HF1 HB Hrest E2) as (HF2 & Hc2 & HB2). injection Hr as <- <- _ _.
    split; [exact HF2|]. split; [congruence|rewrite <- Hc1; exact HB2].
Qed.

Lemma step_FL d k o d' k' r evs : FLdb d -> op_small o -> step (d, k) o = ((d', k'), r, evs) -> FLdb d' /\ d_cfg d' = d_cfg d.
Proof.
  intros HF Ho Hs. unfold step in Hs. destruct o as [key v|key|key| | | | |sync id bops|order|c]; cbn [op_small] in Ho; try contradiction.
  - destruct (db_put d key v) as [[d1 e] ev] eqn:E. injection Hs as <- _ _ _. exact (db_put_FL _ _ _ _ _ _ HF Ho E).
  - destruct (db_get d key) as [[d1 v] ev] eqn:E. injection Hs as <- _ _ _. exact (db_get_FL _ _ _ _ _ HF E).
  - destruct (db_delete d key) as [[d1 e] ev] eqn:E. injection Hs as <- _ _ _. exact (db_delete_FL _ _ _ _ _ HF Ho E).
  - injection Hs as <- _ _ _. auto.
  - destruct (db_fold d) as [[d1 rr] ev] eqn:E. injection Hs as <- _ _ _. exact (db_fold_aux_FL _ _ _ _ _ HF E).
  - destruct (db_stat d) as [[[kn fn] rc] tot]. injection Hs as <- _ _ _. auto.
  - destruct (db_sync d) as [d1 ev] eqn:E. injection Hs as <- _ _ _. exact (db_sync_FL _ _ _ HF E).
  - destruct Ho as [Hid Hb].
    assert (HB0 : BI (c_fsize (d_cfg d)) (new_batch sync id)).
    { unfold BI, new_batch. cbn [b_staged b_cached b_id sum_est length]. split; [lia|]. split; [right; lia|]. split; [constructor|exact Hid]. }
    destruct (run_bops d (new_batch sync id) bops) as [[[d1 b1] rs] ev1] eqn:E1.
    destruct (run_bops_FL _ _ _ _ _ _ _ HF HB0 Hb E1) as (HF1 & Hc1 & HB1).
    destruct (batch_commit d1 b1) as [[[d2 b2] e] ev2] eqn:E2. rewrite <- Hc1 in HB1.
    destruct (batch_commit_FL _ _ _ _ _ _ HF1 HB1 E2) as (HF2 & Hc2). injection Hs as <- _ _ _. split; [exact HF2|congruence].
  - destruct (db_merge d k order) as [[[d1 k1] e] ev] eqn:E. injection Hs as <- _ _ _. exact (db_merge_FL _ _ _ _ _ _ _ HF E).
Qed.

Theorem files_respect_the_limit : forall ops d k d' k' rs evs,
  FLdb d -> Forall op_small ops -> run (d, k) ops = ((d', k'), rs, evs) -> FLdb d' /\ d_cfg d' = d_cfg d.
Proof.
  induction ops as [|o ops IH]; intros d k d' k' rs evs HF Hs Hr; cbn [run] in Hr; [injection Hr as <- _ _ _; auto|].
  destruct (step (d, k) o) as [[[d1 k1] r] ev1] eqn:E1.
  destruct (step_FL _ _ _ _ _ _ _ HF (Forall_inv Hs) E1) as (HF1 & Hc1).
  destruct (run (d1, k1) ops) as [[[d2 k2] rs2] ev2] eqn:E2.
  destruct (IH _ _ _ _ _ _ HF1 (Forall_inv_tail Hs) E2) as (HF2 & Hc2). injection Hr as <- _ _ _. split; [exact HF2|congruence].
Qed.

Lemma open_empty_FL c d k evs : db_open c empty_disk = (OpenOk d k, evs) -> FLdb d /\ d_cfg d = c.
Proof.
  unfold db_open, empty_disk. cbn [load_merge_files k_merge k_data open_all].
  cbn [N.ltb N.compare]. cbn -[h_open db_rotate].
  pose proof (h_open_new (c_io c) (FData 0)) as [Hr Hs].
  destruct (h_open (c_io c) (FData 0) false lf_empty) as [n ev] eqn:Ho. cbn [fst] in *.
  intros H. injection H as <- _ _. cbn [d_cfg]. split; [|reflexivity].
  split; cbn [d_active d_older d_cfg].
  - split; [split; [left; exact Hr|unfold RSfile; rewrite Hr; constructor]|left; rewrite Hs; lia].
  - intros i f [].
Qed.

(* from an empty directory: at every step of every history without a restart every data file respects the limit *)
Theorem limit_from_empty c ops d0 k0 e0 d k rs evs :
  db_open c empty_disk = (OpenOk d0 k0, e0) -> Forall op_small ops -> run (d0, k0) ops = ((d, k), rs, evs) ->
  (lf_size (d_active d) <= c_fsize c \/ single (d_active d)) /\
  (forall i f, In (i, f) (d_older d) -> lf_size f <= c_fsize c \/ single f).
Proof.
  intros Ho Hs Hr. destruct (open_empty_FL _ _ _ _ Ho) as [HF Hc].
  destruct (files_respect_the_limit _ _ _ _ _ _ _ HF Hs Hr) as [[Ha Hold] Hc2]. rewrite Hc2, Hc in *.
  split; [exact (proj2 Ha)|]. intros i f Hin. exact (proj2 (Hold i f Hin)).
Qed.

(* ---- restarts that do not lower the limit (no merge pending) ------------------------------------------ *)
Lemma FL_mono fs fs' f : fs <= fs' -> FL fs f -> FL fs' f.
Proof. intros H [Z [L|S]]; split; try exact Z; [left; lia|right; exact S]. Qed.

Lemma h_close_same io nm f : lf_recs (fst (h_close io nm f)) = lf_recs f /\ lf_size (fst (h_close io nm f)) = lf_size f /\
  lf_phys (fst (h_close io nm f)) = lf_size f.
Proof. unfold h_close. destruct (io =? io_MMap); cbn; auto. Qed.

Lemma close_all_in io : forall l i g, In (i, g) (fst (close_all io l)) ->
  exists f, In (i, f) l /\ lf_recs g = lf_recs f /\ lf_size g = lf_size f /\ lf_phys g = lf_size f.
Proof.
  induction l as [|[j f] l IH]; intros i g Hin; cbn [close_all] in Hin; [destruct Hin|].
  destruct (h_close_same io (FData j) f) as (A & B & C).
  destruct (h_close io (FData j) f) as [f' ev1]. destruct (close_all io l) as [rest ev2]. cbn [fst] in *.
  destruct Hin as [E|Hin].
  - injection E as <- <-. exists f. split; [left; reflexivity|auto].
  - destruct (IH i g Hin) as (f0 & H0 & H1). exists f0. split; [right; exact H0|exact H1].
Qed.

Lemma h_open_same io nm f : lf_recs (fst (h_open io nm true f)) = lf_recs f /\ lf_size (fst (h_open io nm true f)) = lf_phys f.
Proof.
  unfold h_open. destruct (io =? io_MMap).
  - set (f0 := mkLf _ _ _ _ _ _). destruct (h_remap_same nm f0 (lf_phys f) mmapBlockSize) as [H1 H2].
    destruct (h_remap nm f0 (lf_phys f) mmapBlockSize) as [f1 evs]. cbn [fst] in *. rewrite H1, H2. auto.
  - auto.
Qed.

Lemma open_all_in io : forall l i g, In (i, g) (fst (open_all io l)) ->
  exists f, In (i, f) l /\ lf_recs g = lf_recs f /\ lf_size g = lf_phys f.
Proof.
  induction l as [|[j f] l IH]; intros i g Hin; cbn [open_all] in Hin; [destruct Hin|].
  destruct (h_open_same io (FData j) f) as (A & B).
  destruct (h_open io (FData j) true f) as [f' ev1]. destruct (open_all io l) as [rest ev2]. cbn [fst] in *.
  destruct Hin as [E|Hin].
  - injection E as <- <-. exists f. split; [left; reflexivity|auto].
  - destruct (IH i g Hin) as (f0 & H0 & H1). exists f0. split; [right; exact H0|exact H1].
Qed.

Lemma split_last_in {A} : forall (l : list A) i z, split_last l = Some (i, z) -> In z l /\ forall x, In x i -> In x l.
Proof.
  induction l as [|x l IH]; intros i z H; cbn [split_last] in H; [discriminate|].
  destruct l as [|y l].
  - injection H as <- <-. split; [left; reflexivity|intros ? []].
  - destruct (split_last (y :: l)) as [[i0 z0]|] eqn:E; [|discriminate]. injection H as <- <-.
    destruct (IH i0 z0 eq_refl) as [HA HB]. split; [right; exact HA|].
    intros x0 [->|Hx]; [left; reflexivity|right; exact (HB x0 Hx)].
Qed.

Lemma update_index_files d k ty p : d_active (update_index d k ty p) = d_active d /\ d_older (update_index d k ty p) = d_older d /\
  d_cfg (update_index d k ty p) = d_cfg d /\ d_active_id (update_index d k ty p) = d_active_id d.
Proof.
  unfold update_index. destruct (ty =? rt_Deleted).
  - destruct (idx_del _ k) as [ix old]. auto.
  - destruct (idx_put _ k p) as [ix old]. auto.
Qed.
Lemma fold_update_files : forall l d,
  let d' := fold_left (fun acc e => update_index acc (r_key (fst e)) (r_type (fst e)) (snd e)) l d in
  d_active d' = d_active d /\ d_older d' = d_older d /\ d_cfg d' = d_cfg d /\ d_active_id d' = d_active_id d.
Proof.
  induction l as [|e l IH]; intros d; cbn [fold_left]; [auto|].
  destruct (update_index_files d (r_key (fst e)) (r_type (fst e)) (snd e)) as (A & B & C & D).
  destruct (IH (update_index d (r_key (fst e)) (r_type (fst e)) (snd e))) as (A' & B' & C' & D'). cbv zeta in *.
  rewrite A', B', C', D'. auto.
Qed.
Lemma replay_recs_files : forall rs d t,
  d_active (fst (replay_recs d t rs)) = d_active d /\ d_older (fst (replay_recs d t rs)) = d_older d /\
  d_cfg (fst (replay_recs d t rs)) = d_cfg d /\ d_active_id (fst (replay_recs d t rs)) = d_active_id d.
Proof.
  induction rs as [|[r p] rs IH]; intros d t; cbn [replay_recs]; [auto|].
  destruct (r_batch r =? 0).
  - destruct (update_index_files d (r_key r) (r_type r) p) as (A & B & C & D).
    destruct (IH (update_index d (r_key r) (r_type r) p) t) as (A' & B' & C' & D'). rewrite A', B', C', D'. auto.
  - destruct (r_type r =? rt_BatchFinished).
    + destruct (fold_update_files (txn_get t (r_batch r)) d) as (A & B & C & D). cbv zeta in *.
      match goal with |- context [replay_recs ?X ?T rs] => destruct (IH X T) as (A' & B' & C' & D') end.
      rewrite A', B', C', D'. auto.
    + apply IH.
Qed.
Lemma replay_files_files : forall files d t from,
  d_active (fst (replay_files d t files from)) = d_active d /\ d_older (fst (replay_files d t files from)) = d_older d /\
  d_cfg (fst (replay_files d t files from)) = d_cfg d /\ d_active_id (fst (replay_files d t files from)) = d_active_id d.
Proof.
  induction files as [|[id f] files IH]; intros d t from; cbn [replay_files]; [auto|].
  destruct (id <? from); [apply IH|].
  destruct (replay_recs_files (lf_recs f) d t) as (A & B & C & D).
  destruct (replay_recs d t (lf_recs f)) as [d1 t1]. cbn [fst] in *.
  destruct (IH d1 t1 from) as (A' & B' & C' & D'). rewrite A', B', C', D'. auto.
Qed.

(* the files of the open database, as Close leaves them on disk *)
Lemma db_close_files d k k1 ev : FLdb d -> db_close d k = (k1, ev) ->
  k_merge k1 = k_merge k /\ forall i g, In (i, g) (k_data k1) -> FL (c_fsize (d_cfg d)) g /\ lf_phys g = lf_size g.
Proof.
  intros [Ha Ho] Hc. unfold db_close in Hc.
  destruct (h_close_same (io_of d) (FData (d_active_id d)) (d_active d)) as (A & B & C).
  destruct (h_close (io_of d) (FData (d_active_id d)) (d_active d)) as [a ev1].
  pose proof (close_all_in (io_of d) (d_older d)) as Hin.
  destruct (close_all (io_of d) (d_older d)) as [o ev2]. cbn [fst] in *. injection Hc as <- _. cbn [k_merge k_data].
  split; [reflexivity|]. intros i g Hg. apply in_older_set in Hg. destruct Hg as [E|Hg].
  - injection E as -> ->. split; [exact (FL_same _ _ _ A B Ha)|congruence].
  - destruct (Hin i g Hg) as (f & Hf & R1 & R2 & R3). split; [exact (FL_same _ _ _ R1 R2 (Ho i f Hf))|congruence].
Qed.

Lemma db_open_FL c k d k' evs fs :
  k_merge k = None -> (forall i g, In (i, g) (k_data k) -> FL fs g /\ lf_phys g = lf_size g) -> fs <= c_fsize c ->
  db_open c k = (OpenOk d k', evs) -> FLdb d /\ d_cfg d = c /\ k_merge k' = None.
Proof.
  intros Hnm Hfiles Hfs H. unfold db_open, load_merge_files in H. rewrite Hnm in H.
  pose proof (open_all_in (c_io c) (k_data k)) as Hin.
  destruct (open_all (c_io c) (k_data k)) as [files ev2]. cbn [fst] in Hin.
  assert (Hall : forall i g, In (i, g) files -> FL (c_fsize c) g).
  { intros i g Hg. destruct (Hin i g Hg) as (f & Hf & R1 & R2). destruct (Hfiles i f Hf) as [HFL Hp].
    apply (FL_mono fs); [exact Hfs|]. apply (FL_same _ f g R1); [congruence|exact HFL]. }
  change (0 <? 0) with false in H. cbn -[h_open db_rotate replay_files split_last] in H.
  destruct (split_last files) as [[older [aid af]]|] eqn:Esl.
  - destruct (split_last_in _ _ _ Esl) as [Hz Hi].
    destruct (replay_files_files files (mkDb c aid af older [] 0 0 0) [] 0) as (A & B & C & D).
    destruct (replay_files (mkDb c aid af older [] 0 0 0) [] files 0) as [d3 t3]. cbn [fst d_active d_older d_cfg d_active_id] in *.
    assert (HF3 : FLdb d3).
    { unfold FLdb. rewrite A, B, C. split; [exact (Hall _ _ Hz)|]. intros i g Hg. exact (Hall _ _ (Hi _ Hg)). }
    destruct ((0 <=? aid) && lf_torn af).
    + destruct (db_rotate d3) as [d4 ev5] eqn:Hrot. destruct (db_rotate_FL _ _ _ HF3 Hrot) as (HF4 & _ & _ & Hc4).
      injection H as <- <- _. split; [exact HF4|]. split; [congruence|exact Hnm].
    + injection H as <- <- _. split; [exact HF3|]. split; [exact C|exact Hnm].
  - pose proof (h_open_new (c_io c) (FData 0)) as [Hr Hs].
    destruct (h_open (c_io c) (FData 0) false lf_empty) as [n ev] eqn:Ho. cbn [fst] in *.
    destruct (replay_files_files files (mkDb c 0 n [] [] 0 0 0) [] 0) as (A & B & C & D).
    destruct (replay_files (mkDb c 0 n [] [] 0 0 0) [] files 0) as [d3 t3]. cbn [fst andb d_active d_older d_cfg d_active_id] in *.
    injection H as <- <- _. split; [|split; [exact C|exact Hnm]].
    unfold FLdb. rewrite A, B, C. split; [split; [split; [left; exact Hr|unfold RSfile; rewrite Hr; constructor]|left; rewrite Hs; lia]|intros i g []].
Qed.

Lemma db_open_never_fails c k e k2 ev : db_open c k <> (OpenErr e k2, ev).
Proof.
  intros Ho. unfold db_open in Ho. destruct (load_merge_files k) as [[k1' mid] e1]. destruct (open_all _ _) as [files e2].
  destruct (if 0 <? mid then _ else _) as [[hr k2'] e3]. destruct (load_hint _ _ _) as [d1 hinted].
  destruct (split_last files) as [[older [aid af]]|].
  - destruct (replay_files _ _ _ _) as [d3 t3]. destruct (_ && _); [destruct (db_rotate d3)|]; discriminate.
  - destruct (h_open _ _ _ _). destruct (replay_files _ _ _ _). cbn [andb] in Ho. discriminate.
Qed.

(* histories with restarts: every restart reopens with a limit at least as large as the one before; no merges *)
Fixpoint ops_small_r (fs : N) (ops : list op) : Prop :=
  match ops with
  | [] => True
  | OpRestart c :: r => fs <= c_fsize c /\ ops_small_r (c_fsize c) r
  | OpMerge _ :: r => False
  | o :: r => op_small o /\ ops_small_r fs r
  end.

Lemma step_keeps_no_merge d k o d' k' r evs : (match o with OpMerge _ | OpRestart _ => False | _ => True end) ->
  step (d, k) o = ((d', k'), r, evs) -> k' = k.
Proof.
  intros Ho Hs. unfold step in Hs. destruct o as [key v|key|key| | | | |sync id bops|order|c]; try contradiction.
  - destruct (db_put d key v) as [[d1 e] ev]. injection Hs as _ <- _ _. reflexivity.
  - destruct (db_get d key) as [[d1 v] ev]. injection Hs as _ <- _ _. reflexivity.
  - destruct (db_delete d key) as [[d1 e] ev]. injection Hs as _ <- _ _. reflexivity.
  - injection Hs as _ <- _ _. reflexivity.
  - destruct (db_fold d) as [[d1 rr] ev]. injection Hs as _ <- _ _. reflexivity.
  - destruct (db_stat d) as [[[kn fn] rc] tot]. injection Hs as _ <- _ _. reflexivity.
  - destruct (db_sync d) as [d1 ev]. injection Hs as _ <- _ _. reflexivity.
  - destruct (run_bops d (new_batch sync id) bops) as [[[d1 b1] rs] ev1]. destruct (batch_commit d1 b1) as [[[d2 b2] e] ev2].
    injection Hs as _ <- _ _. reflexivity.
Qed.

Theorem files_respect_the_limit_across_restarts : forall ops fs d k d' k' rs evs,
  FLdb d -> k_merge k = None -> c_fsize (d_cfg d) <= fs -> ops_small_r fs ops ->
  run (d, k) ops = ((d', k'), rs, evs) -> FLdb d'.
Proof.
  induction ops as [|o ops IH]; intros fs d k d' k' rs evs HF Hnm Hfs Hs Hr; cbn [run] in Hr; [injection Hr as <- _ _ _; exact HF|].
  destruct (step (d, k) o) as [[[d1 k1] r] ev1] eqn:E1.
  destruct (run (d1, k1) ops) as [[[d2 k2] rs2] ev2] eqn:E2. injection Hr as <- _ _ _.
  assert (Hplain : (match o with OpMerge _ | OpRestart _ => False | _ => True end) -> op_small o /\ ops_small_r fs ops ->
                   FLdb d2).
  { intros Hp [Ho Hrest]. destruct (step_FL _ _ _ _ _ _ _ HF Ho E1) as (HF1 & Hc1).
    pose proof (step_keeps_no_merge _ _ _ _ _ _ _ Hp E1) as Hk. subst k1.
    apply (IH fs d1 k d2 k2 rs2 ev2 HF1 Hnm); [rewrite Hc1; exact Hfs|exact Hrest|exact E2]. }
  destruct o as [key v|key|key| | | | |sync id bops|order|c]; cbn [ops_small_r] in Hs; try (apply Hplain; [exact I|exact Hs]).
  - contradiction.
  - destruct Hs as [Hle Hrest]. cbn [step] in E1.
    destruct (db_close d k) as [kc evc] eqn:Ec. destruct (db_close_files _ _ _ _ HF Ec) as [Hm Hfiles]. rewrite Hnm in Hm.
    destruct (db_open c kc) as [[d0 k0|er k0] evo] eqn:Eo.
    + injection E1 as <- <- _ _.
      destruct (db_open_FL c kc d0 k0 evo (c_fsize (d_cfg d)) Hm Hfiles ltac:(lia) Eo) as (HF0 & Hc0 & Hm0).
      exact (IH (c_fsize c) d0 k0 d2 k2 rs2 ev2 HF0 Hm0 ltac:(rewrite Hc0; lia) Hrest E2).
    + exfalso. exact (db_open_never_fails _ _ _ _ _ Eo).
Qed.

Theorem limit_from_empty_with_restarts c ops d0 k0 e0 d k rs evs :
  db_open c empty_disk = (OpenOk d0 k0, e0) -> ops_small_r (c_fsize c) ops -> run (d0, k0) ops = ((d, k), rs, evs) ->
  (lf_size (d_active d) <= c_fsize (d_cfg d) \/ single (d_active d)) /\
  (forall i f, In (i, f) (d_older d) -> lf_size f <= c_fsize (d_cfg d) \/ single f).
Proof.
  intros Ho Hs Hr. destruct (open_empty_FL _ _ _ _ Ho) as [HF Hc].
  assert (Hk : k_merge k0 = None).
  { destruct (EngineRecover.open_empty_log c) as (d1 & k1 & e1 & Ho1 & _ & Hnm). rewrite Ho in Ho1. injection Ho1 as _ <- _. exact Hnm. }
  pose proof (files_respect_the_limit_across_restarts ops (c_fsize c) d0 k0 d k rs evs HF Hk ltac:(rewrite Hc; lia) Hs Hr) as [Ha Hold].
  split; [exact (proj2 Ha)|]. intros i f Hin. exact (proj2 (Hold i f Hin)).
Qed.

(* ---- the rewritten files of a Merge respect the limit too ---------------------------------------------- *)
Definition MSI (fs : N) (m : mstate) : Prop :=
  FL fs (ms_active m) /\ forall i f, In (i, f) (ms_older m) -> FL fs f.

Lemma ms_append_FL c m r m' p evs : MSI (c_fsize c) m -> rec_small r -> ms_append c m r = (m', p, evs) -> MSI (c_fsize c) m'.
Proof.
  intros [Ha Ho] Hs Happ. unfold ms_append in Happ.
  set (est := disk_size_estimate (len (r_key r)) (len (r_value r))) in *.
  assert (Hcore : forall f nm fid a p0 ev2, FL (c_fsize c) f ->
            (lf_size f + est <= c_fsize c \/ (lf_size f = 0 /\ lf_recs f = [])) ->
            lf_append (c_io c) nm fid f r = (a, p0, ev2) -> FL (c_fsize c) a).
  { intros f nm fid a p0 ev2 Hf Hcase Eapp. destruct (lf_append_growth _ _ _ _ _ _ _ _ Hs Eapp) as (G1 & G2 & G3 & G4).
    apply (FL_after_append _ f a (rec_est r) [(r, p0)]); try assumption.
    - intros _. exact G4.
    - discriminate.
    - constructor; [exact Hs|constructor].
    - unfold rec_est. fold est. destruct Hcase as [A|[A _]]; [left; exact A|right; split; [exact A|cbn; lia]]. }
  destruct (c_fsize c <? lf_size (ms_active m) + est) eqn:Efit.
  - destruct (h_sync_same (MData (ms_active_id m)) (ms_active m)) as [S1 S2].
    destruct (h_sync (MData (ms_active_id m)) (ms_active m)) as [a e1]. cbn [fst] in *.
    destruct (h_open_new (c_io c) (MData (ms_active_id m + 1))) as [O1 O2].
    destruct (h_open (c_io c) (MData (ms_active_id m + 1)) false lf_empty) as [n e2]. cbn [fst] in *.
    cbn [ms_active ms_active_id ms_older ms_hint] in Happ.
    destruct (lf_append (c_io c) (MData (ms_active_id m + 1)) (ms_active_id m + 1) n r) as [[a2 p0] ev2] eqn:Eapp.
    injection Happ as <- _ _. split; cbn [ms_active ms_older].
    + apply (Hcore n (MData (ms_active_id m + 1)) (ms_active_id m + 1) a2 p0 ev2); [|right; split; [exact O2|exact O1]|exact Eapp].
      split; [split; [left; exact O1|unfold RSfile; rewrite O1; constructor]|left; rewrite O2; lia].
    + intros i f Hin. apply in_older_set in Hin. destruct Hin as [E|Hin]; [|exact (Ho i f Hin)].
      injection E as -> ->. exact (FL_same _ _ _ S1 S2 Ha).
  - apply N.ltb_ge in Efit.
    destruct (lf_append (c_io c) (MData (ms_active_id m)) (ms_active_id m) (ms_active m) r) as [[a2 p0] ev2] eqn:Eapp.
    injection Happ as <- _ _. split; cbn [ms_active ms_older]; [|exact Ho].
    apply (Hcore (ms_active m) (MData (ms_active_id m)) (ms_active_id m) a2 p0 ev2 Ha (or_introl Efit) Eapp).
Qed.

Lemma ms_hint_append_FL c m k p m' evs : MSI (c_fsize c) m -> ms_hint_append c m k p = (m', evs) -> MSI (c_fsize c) m'.
Proof.
  intros HM H. unfold ms_hint_append in H.
  destruct (frame 0 (hf_size (ms_hint m) / blockSize) (hf_size (ms_hint m) mod blockSize) (hint_len k p)) as [[q b'] s'].
  injection H as <- _. exact HM.
Qed.

Lemma merge_file_FL c ix fid nm : forall rs m res evs,
  MSI (c_fsize c) m -> Forall (fun rp => rec_small (fst rp)) rs -> merge_file c ix fid nm m rs = (res, evs) ->
  match res with MsOk m' => MSI (c_fsize c) m' | MsErr _ m' => MSI (c_fsize c) m' end.
Proof.
  induction rs as [|[r p] rs IH]; intros m res evs HM Hs Hm; cbn [merge_file] in Hm; [injection Hm as <- _; exact HM|].
  pose proof (Forall_inv Hs) as Hr. pose proof (Forall_inv_tail Hs) as Hrs. cbn [fst] in Hr.
  destruct (idx_get ix (r_key r)) as [q|]; [|exact (IH _ _ _ HM Hrs Hm)].
  destruct ((p_fid q =? fid) && (p_off q =? p_off p) && (p_bid q =? p_bid p)); [|exact (IH _ _ _ HM Hrs Hm)].
  destruct (ms_append c m (mkRec (r_type r) (r_key r) (r_value r) 0)) as [[m1 np] ev1] eqn:Ea.
  assert (Hsm : rec_small (mkRec (r_type r) (r_key r) (r_value r) 0)) by (split; [exact (proj1 Hr)|cbn; lia]).
  pose proof (ms_append_FL _ _ _ _ _ _ HM Hsm Ea) as HM1.
  destruct (nm <=? ms_active_id m1); [injection Hm as <- _; exact HM1|].
  destruct (ms_hint_append c m1 (r_key r) np) as [m2 ev2] eqn:Eh. pose proof (ms_hint_append_FL _ _ _ _ _ _ HM1 Eh) as HM2.
  destruct (merge_file c ix fid nm m2 rs) as [res3 ev3] eqn:E3. injection Hm as <- _. exact (IH _ _ _ HM2 Hrs E3).
Qed.

Lemma merge_files_MSI c : forall order d nm m d' res evs,
  FLdb d -> c_fsize (d_cfg d) <= c_fsize c -> MSI (c_fsize c) m -> merge_files c d order nm m = (d', res, evs) ->
  match res with MsOk m' => MSI (c_fsize c) m' | MsErr _ m' => MSI (c_fsize c) m' end.
Proof.
  induction order as [|fid order IH]; intros d nm m d' res evs HF Hle HM Hm; cbn [merge_files] in Hm; [injection Hm as _ <- _; exact HM|].
  destruct (older_get (d_older d) fid) as [f|] eqn:Eg; [|exact (IH _ _ _ _ _ _ HF Hle HM Hm)].
  destruct (scan_touch_same (c_io c) (FData fid) f) as [S1 S2].
  destruct (scan_touch (c_io c) (FData fid) f) as [f' ev0]. cbn [fst] in *.
  set (d1 := set_older d (older_set (d_older d) fid f')) in *.
  assert (Hf : FL (c_fsize (d_cfg d)) f) by exact (proj2 HF _ _ (older_get_in _ _ _ Eg)).
  assert (HF1 : FLdb d1).
  { destruct HF as [Ha Ho]. split; [exact Ha|]. unfold d1. cbn [d_older set_older d_cfg]. intros i g Hin. apply in_older_set in Hin.
    destruct Hin as [E|Hin]; [|exact (Ho i g Hin)]. injection E as -> ->. exact (FL_same _ _ _ S1 S2 Hf). }
  assert (Hrs : Forall (fun rp => rec_small (fst rp)) (lf_recs f')) by (rewrite S1; exact (proj2 (proj1 Hf))).
  destruct (merge_file c (d_index d1) fid nm m (lf_recs f')) as [r1 ev1] eqn:E1.
  pose proof (merge_file_FL c _ _ _ _ _ _ _ HM Hrs E1) as HM1.
  destruct r1 as [m'|e m'].
  - destruct (merge_files c d1 order nm m') as [[d2 res2] ev2] eqn:E2. injection Hm as _ <- _.
    exact (IH _ _ _ _ _ _ HF1 Hle HM1 E2).
  - injection Hm as _ <- _. exact HM1.
Qed.

Lemma ms_close_older_in io : forall l i g, In (i, g) (fst (ms_close_older io l)) ->
  exists f, In (i, f) l /\ lf_recs g = lf_recs f /\ lf_size g = lf_size f.
Proof.
  induction l as [|[j f] l IH]; intros i g Hin; cbn [ms_close_older] in Hin; [destruct Hin|].
  destruct (h_close_same io (MData j) f) as (A & B & _).
  destruct (h_close io (MData j) f) as [f' ev1]. destruct (ms_close_older io l) as [rest ev2]. cbn [fst] in *.
  destruct Hin as [E|Hin].
  - injection E as <- <-. exists f. split; [left; reflexivity|auto].
  - destruct (IH i g Hin) as (f0 & H0 & H1). exists f0. split; [right; exact H0|exact H1].
Qed.

(* a Merge that finishes: every rewritten file respects the limit or holds a single record *)
Theorem merge_output_respects_the_limit d k order d' k' evs :
  FLdb d -> db_merge d k order = (d', k', None, evs) ->
  exists md, k_merge k' = Some md /\ forall i f, In (i, f) (m_files md) -> lf_size f <= c_fsize (d_cfg d) \/ single f.
Proof.
  intros HF Hm. unfold db_merge in Hm.
  destruct (db_rotate d) as [d1 ev1] eqn:Er. destruct (db_rotate_FL _ _ _ HF Er) as (HF1 & _ & _ & Hc1).
  destruct (h_open_new (c_io (d_cfg d)) (MData 0)) as [O1 O2].
  destruct (h_open (c_io (d_cfg d)) (MData 0) false lf_empty) as [a0 ev3]. cbn [fst] in *.
  destruct (hf_open_new (c_io (d_cfg d))) as [h0 ev4].
  assert (HM0 : MSI (c_fsize (d_cfg d)) (mkMs 0 a0 [] h0)).
  { split; cbn [ms_active ms_older]; [|intros i f []].
    split; [split; [left; exact O1|unfold RSfile; rewrite O1; constructor]|left; rewrite O2; lia]. }
  destruct (merge_files (d_cfg d) d1 order (d_active_id d1) (mkMs 0 a0 [] h0)) as [[d2 res] ev5] eqn:Emf.
  pose proof (merge_files_MSI (d_cfg d) order d1 _ _ _ _ _ HF1 ltac:(rewrite Hc1; lia) HM0 Emf) as HMres.
  destruct res as [m|err m]; [|discriminate].
  destruct (hf_close (c_io (d_cfg d)) (ms_hint m)) as [h1 ev6].
  destruct (h_close_same (c_io (d_cfg d)) (MData (ms_active_id m)) (ms_active m)) as (A & B & _).
  destruct (h_close (c_io (d_cfg d)) (MData (ms_active_id m)) (ms_active m)) as [a1 ev7]. cbn [fst] in *.
  pose proof (ms_close_older_in (c_io (d_cfg d)) (ms_older m)) as Hin.
  destruct (ms_close_older (c_io (d_cfg d)) (ms_older m)) as [o1 ev8]. cbn [fst] in *.
  destruct (db_sync d2) as [d3 evS]. injection Hm as _ <- _.
  eexists. split; [reflexivity|]. cbn [m_files]. intros i f Hf. apply in_older_set in Hf. destruct HMres as [Ha Ho].
  destruct Hf as [E|Hf].
  - injection E as -> ->. exact (proj2 (FL_same _ _ _ A B Ha)).
  - destruct (Hin i f Hf) as (f0 & Hf0 & R1 & R2). exact (proj2 (FL_same _ _ _ R1 R2 (Ho i f0 Hf0))).
Qed.
