(* ConcProofs.v — concurrent Put / Delete / Get are linearizable, and at quiescence the live
   mapping is the one a restart recovers (C08). *)
From Coq Require Import ZArith Lia ZifyN ZifyNat ZifyBool Sorting.Sorted.
From KV Require Import Bytes GenConsts Chunk Record Engine Script Conc BytesLemmas AMapLemmas
  EngineFiles EngineInv EngineBatch EngineRefine EngineLog EngineRecover.
Open Scope N_scope.

(* ---- appends never disturb what was already readable ---------------------------------------------- *)
Lemma db_put_extends d k v d' e evs : InvF d -> db_put d k v = (d', e, evs) -> extends d d'.
Proof.
  intros HF H. unfold db_put in H. destruct (len k =? 0); [injection H as <- _ _; apply extends_refl|].
  destruct (db_append d _) as [[d1 p1] ev1] eqn:Happ. destruct (db_append_spec _ _ _ _ _ HF Happ) as (_ & Hext & _).
  destruct (idx_put _ _ _) as [ix old]. injection H as <- _ _. intros q x Hq. apply Hext in Hq. exact Hq.
Qed.
Lemma db_delete_extends d k d' e evs : InvF d -> db_delete d k = (d', e, evs) -> extends d d'.
Proof.
  intros HF H. unfold db_delete in H. destruct (len k =? 0); [injection H as <- _ _; apply extends_refl|].
  destruct (idx_get (d_index d) k); [|injection H as <- _ _; apply extends_refl].
  destruct (db_append d _) as [[d1 p1] ev1] eqn:Happ. destruct (db_append_spec _ _ _ _ _ HF Happ) as (_ & Hext & _).
  destruct (idx_del _ _) as [ix old]. destruct old; injection H as <- _ _; intros q x Hq; apply Hext in Hq; exact Hq.
Qed.

(* ---- the invariant of a concurrent execution ---------------------------------------------------- *)
Definition res_at (M0 : smap) (L : list lin) (n : nat) : option lres := nth_error (snd (lin_run M0 L)) n.

Definition pending_ok (d : db) (M0 : smap) (L : list lin) (t : tstate) : Prop :=
  match t with
  | TIdle _ => True
  | TReading st None _ _ => res_at M0 L st = Some (inr (inr EKeyNotFound))
  | TReading st (Some p) _ _ => exists v, val_at d p = Some v /\ res_at M0 L st = Some (inr (inl v))
  end.

Definition CInv (M0 : smap) (s : cstate) : Prop :=
  LogInv (c_db s) (fst (lin_run M0 (c_lins s))) /\
  Forall (pending_ok (c_db s) M0 (c_lins s)) (c_threads s) /\
  Forall (fun x => res_at M0 (c_lins s) (fst (done_res x)) = Some (snd (done_res x))) (c_hist s).

Lemma lin_run_app M0 L l :
  lin_run M0 (L ++ [l]) =
  (fst (lin_apply (fst (lin_run M0 L)) l), snd (lin_run M0 L) ++ [snd (lin_apply (fst (lin_run M0 L)) l)]).
Proof.
  revert M0. induction L as [|a L IH]; intros M0; cbn [app lin_run fst snd].
  - destruct (lin_apply M0 l) as [M1 x]. reflexivity.
  - destruct (lin_apply M0 a) as [M1 x]. rewrite IH. destruct (lin_run M1 L) as [M2 xs]. cbn [fst snd app]. reflexivity.
Qed.
Lemma lin_run_len M0 L : length (snd (lin_run M0 L)) = length L.
Proof.
  revert M0. induction L as [|a L IH]; intros M0; cbn [lin_run]; [reflexivity|].
  destruct (lin_apply M0 a) as [M1 x]. specialize (IH M1). destruct (lin_run M1 L) as [M2 xs]. cbn [snd length] in *. lia.
Qed.
Lemma res_at_app_old M0 L l n x : res_at M0 L n = Some x -> res_at M0 (L ++ [l]) n = Some x.
Proof.
  unfold res_at. rewrite lin_run_app. cbn [snd]. intros H. rewrite nth_error_app1; [exact H|].
  apply nth_error_Some. rewrite H. discriminate.
Qed.
Lemma res_at_app_new M0 L l : res_at M0 (L ++ [l]) (length L) = Some (snd (lin_apply (fst (lin_run M0 L)) l)).
Proof.
  unfold res_at. rewrite lin_run_app. cbn [snd]. rewrite nth_error_app2 by (rewrite lin_run_len; lia).
  rewrite lin_run_len, Nat.sub_diag. reflexivity.
Qed.

Lemma pending_ext d d' M0 L l t : extends d d' -> pending_ok d M0 L t -> pending_ok d' M0 (L ++ [l]) t.
Proof.
  intros He. destruct t as [todo|st [p|] k todo]; cbn [pending_ok]; [auto| |].
  - intros (v & Hv & Hr). exists v. split; [eapply val_at_extends; eassumption|apply res_at_app_old; exact Hr].
  - apply res_at_app_old.
Qed.
Lemma pending_same d d' M0 L t : extends d d' -> pending_ok d M0 L t -> pending_ok d' M0 L t.
Proof.
  intros He. destruct t as [todo|st [p|] k todo]; cbn [pending_ok]; [auto| |auto].
  intros (v & Hv & Hr). exists v. split; [eapply val_at_extends; eassumption|exact Hr].
Qed.

Lemma Forall_set_nth {A} (P : A -> Prop) l i x : Forall P l -> P x -> Forall P (set_nth l i x).
Proof.
  revert i. induction l as [|y l IH]; intros i Hl Hx; destruct i; cbn [set_nth]; auto.
  - constructor; [exact Hx|exact (Forall_inv_tail Hl)].
  - constructor; [exact (Forall_inv Hl)|apply IH; [exact (Forall_inv_tail Hl)|exact Hx]].
Qed.
Lemma Forall_nth_error {A} (P : A -> Prop) l i x : Forall P l -> nth_error l i = Some x -> P x.
Proof. intros H Hn. rewrite Forall_forall in H. apply H. eapply nth_error_In. exact Hn. Qed.

Theorem cstep_inv M0 s tid : CInv M0 s -> CInv M0 (cstep s tid).
Proof.
  intros (HL & Hp & Hh). unfold cstep.
  destruct (nth_error (c_threads s) tid) as [t|] eqn:Et; [|split; auto].
  pose proof HL as [(HI & HO & HP & HR & Hm) Ht].
  set (M := fst (lin_run M0 (c_lins s))) in *.
  destruct t as [[|[k v|k|k] todo]|st [p|] k todo].
  - split; auto.
  - (* Put *)
    destruct (db_put (c_db s) k v) as [[d' e] evs] eqn:Hput.
    destruct (db_put_log _ _ _ _ _ _ _ HL Hput) as [HL' He].
    pose proof (db_put_extends _ _ _ _ _ _ (proj1 HI) Hput) as Hext.
    unfold CInv. cbn [c_db c_threads c_hist c_lins]. rewrite lin_run_app. cbn [fst lin_apply]. fold M.
    destruct (s_put M k v) as [M' e'] eqn:Es. cbn [fst snd] in *. subst e'.
    split; [exact HL'|]. split.
    + apply Forall_set_nth; [|exact I]. eapply Forall_impl; [|exact Hp]. intros t Ht0. eapply pending_ext; eassumption.
    + apply Forall_app. split.
      * eapply Forall_impl; [|exact Hh]. intros x Hx. apply res_at_app_old. exact Hx.
      * constructor; [|constructor]. cbn [done_res fst snd]. rewrite res_at_app_new. cbn [lin_apply]. fold M. rewrite Es. reflexivity.
  - (* Delete *)
    destruct (db_delete (c_db s) k) as [[d' e] evs] eqn:Hdel.
    destruct (db_delete_log _ _ _ _ _ _ HL Hdel) as [HL' He].
    pose proof (db_delete_extends _ _ _ _ _ (proj1 HI) Hdel) as Hext.
    unfold CInv. cbn [c_db c_threads c_hist c_lins]. rewrite lin_run_app. cbn [fst lin_apply]. fold M.
    destruct (s_del M k) as [M' e'] eqn:Es. cbn [fst snd] in *. subst e'.
    split; [exact HL'|]. split.
    + apply Forall_set_nth; [|exact I]. eapply Forall_impl; [|exact Hp]. intros t Ht0. eapply pending_ext; eassumption.
    + apply Forall_app. split.
      * eapply Forall_impl; [|exact Hh]. intros x Hx. apply res_at_app_old. exact Hx.
      * constructor; [|constructor]. cbn [done_res fst snd]. rewrite res_at_app_new. cbn [lin_apply]. fold M. rewrite Es. reflexivity.
  - (* Get: the index lookup *)
    assert (Hlin : fst (lin_run M0 (c_lins s ++ [LGet tid k])) = M) by (rewrite lin_run_app; reflexivity).
    assert (Hold : Forall (pending_ok (c_db s) M0 (c_lins s ++ [LGet tid k])) (c_threads s)).
    { eapply Forall_impl; [|exact Hp]. intros t Ht0. eapply pending_ext; [apply extends_refl|exact Ht0]. }
    assert (Hhist : Forall (fun x => res_at M0 (c_lins s ++ [LGet tid k]) (fst (done_res x)) = Some (snd (done_res x))) (c_hist s)).
    { eapply Forall_impl; [|exact Hh]. intros x Hx. apply res_at_app_old. exact Hx. }
    destruct (len k =? 0) eqn:Ek; unfold CInv; cbn [c_db c_threads c_hist c_lins]; rewrite Hlin.
    + split; [exact HL|]. split; [apply Forall_set_nth; [exact Hold|exact I]|].
      apply Forall_app. split; [exact Hhist|]. constructor; [|constructor]. cbn [done_res fst snd].
      rewrite res_at_app_new. cbn [lin_apply snd]. fold M. unfold s_get. rewrite Ek. reflexivity.
    + split; [exact HL|]. split; [|exact Hhist]. apply Forall_set_nth; [exact Hold|].
      pose proof (R_get (c_db s) M k HR) as Hg. cbn [pending_ok].
      destruct (idx_get (d_index (c_db s)) k) as [p|].
      * destruct Hg as (v & Hv & Hmk). exists v. split; [exact Hv|]. rewrite res_at_app_new. cbn [lin_apply snd]. fold M.
        unfold s_get. rewrite Ek, Hmk. reflexivity.
      * rewrite res_at_app_new. cbn [lin_apply snd]. fold M. unfold s_get. rewrite Ek, Hg. reflexivity.
  - (* Get: the file read *)
    pose proof (Forall_nth_error _ _ _ _ Hp Et) as Hpend. cbn [pending_ok] in Hpend. destruct Hpend as (v & Hv & Hr).
    destruct (db_read_spec (c_db s) p v (proj1 HI) Hv) as (d' & evs & Hrd & HF' & Hsame & Hcfg). rewrite Hrd.
    pose proof (db_read_files _ _ _ _ _ HO Hrd) as Hsf.
    assert (HI' : Inv d') by (eapply Inv_same; eassumption).
    assert (HR' : R d' M) by (eapply R_same; eassumption).
    assert (Hext : extends (c_db s) d') by (intros q x Hq; rewrite (proj1 Hsame); exact Hq).
    unfold CInv. cbn [c_db c_threads c_hist c_lins]. fold M.
    split; [eapply LogInv_same_files; eassumption|]. split.
    + apply Forall_set_nth; [|exact I]. eapply Forall_impl; [|exact Hp]. intros t Ht0. eapply pending_same; eassumption.
    + apply Forall_app. split; [exact Hh|]. constructor; [|constructor]. cbn [done_res fst snd]. exact Hr.
  - (* Get of an absent key completes *)
    pose proof (Forall_nth_error _ _ _ _ Hp Et) as Hpend. cbn [pending_ok] in Hpend.
    unfold CInv. cbn [c_db c_threads c_hist c_lins]. fold M.
    split; [exact HL|]. split; [apply Forall_set_nth; [exact Hp|exact I]|].
    apply Forall_app. split; [exact Hh|]. constructor; [|constructor]. cbn [done_res fst snd]. exact Hpend.
Qed.

Theorem crun_inv M0 : forall sched s, CInv M0 s -> CInv M0 (crun s sched).
Proof.
  induction sched as [|t sched IH]; intros s H; [exact H|]. cbn [crun fold_left]. apply IH. apply cstep_inv. exact H.
Qed.
