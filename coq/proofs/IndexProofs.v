(* IndexProofs.v — the sharded iterator refines a cursor into the ordered snapshot (C10). *)
From Coq Require Import ZArith Lia Sorting.Sorted Sorting.Permutation.
From KV Require Import Bytes GenConsts Chunk Record Engine Index BytesLemmas AMapLemmas.

Section Iter.
Variable rev : bool.

Notation kb := (key_before rev).
Definition before (a b : bytes) : Prop := kb a b = true.

Lemma kb_irrefl a : kb a a = false.
Proof. unfold key_before. destruct rev; apply bytes_ltb_irrefl. Qed.
Lemma kb_trans a b c : kb a b = true -> kb b c = true -> kb a c = true.
Proof. unfold key_before. destruct rev; intros H1 H2; [eapply bytes_ltb_trans; eassumption|eapply bytes_ltb_trans; eassumption]. Qed.
Lemma kb_total a b : kb a b = false -> a <> b -> kb b a = true.
Proof.
  unfold key_before. intros H Hne. destruct rev.
  - apply bytes_ltb_total; [exact H|]. apply bytes_eqb_neq. congruence.
  - apply bytes_ltb_total; [exact H|]. apply bytes_eqb_neq. exact Hne.
Qed.
Lemma kb_asym a b : kb a b = true -> kb b a = false.
Proof. intros H. destruct (kb b a) eqn:E; [|reflexivity]. pose proof (kb_trans _ _ _ H E) as H2. rewrite kb_irrefl in H2. discriminate. Qed.

(* ---- cuts: the part of the order that is still ahead ----------------------------------------------- *)
Inductive cut := CAll | CGe (t : bytes) | CGt (k : bytes).
Definition in_cut (c : cut) (k : bytes) : bool :=
  match c with CAll => true | CGe t => at_or_after rev t k | CGt x => kb x k end.
Definition inc (c : cut) (x : bytes * pos) : bool := in_cut c (fst x).

Lemma in_cut_up c a b : in_cut c a = true -> kb a b = true -> in_cut c b = true.
Proof.
  destruct c as [|t|k]; cbn [in_cut]; [reflexivity| |apply kb_trans].
  unfold at_or_after. intros H1 H2. destruct (kb b t) eqn:E; [|reflexivity].
  rewrite (kb_trans _ _ _ H2 E) in H1. discriminate.
Qed.

(* ---- lists in iteration order -------------------------------------------------------------------- *)
Definition ordered (l : list (bytes * pos)) : Prop := StronglySorted (fun a b => kb (fst a) (fst b) = true) l.

Lemma ordered_inv x l : ordered (x :: l) -> ordered l /\ Forall (fun y => kb (fst x) (fst y) = true) l.
Proof. intros H. inversion H; subst. auto. Qed.

Lemma ordered_filter (q : bytes * pos -> bool) l : ordered l -> ordered (filter q l).
Proof.
  induction l as [|x l IH]; intros H; [constructor|]. destruct (ordered_inv _ _ H) as [H1 H2]. cbn [filter].
  destruct (q x); [|apply IH; exact H1]. constructor; [apply IH; exact H1|]. apply Forall_forall. intros y Hy. rewrite Forall_forall in H2. apply filter_In in Hy. apply H2. tauto.
Qed.

(* on an ordered list the elements of an upward-closed cut are a suffix *)
Lemma filter_cut_suffix c : forall l, ordered l ->
  filter (inc c) l = skipn (length (filter (fun x => negb (inc c x)) l)) l.
Proof.
  induction l as [|x l IH]; intros H; [reflexivity|]. destruct (ordered_inv _ _ H) as [H1 H2]. cbn [filter].
  destruct (inc c x) eqn:E; cbn [negb].
  - (* everything after x is in the cut as well *)
    assert (Hall : forall y, In y l -> inc c y = true).
    { intros y Hy. rewrite Forall_forall in H2. unfold inc in *. eapply in_cut_up; [exact E|apply H2; exact Hy]. }
    assert (Hf : filter (inc c) l = l).
    { clear - Hall. induction l as [|y l IH]; [reflexivity|]. cbn [filter]. rewrite (Hall y (or_introl eq_refl)). f_equal. apply IH. intros z Hz. apply Hall. right. exact Hz. }
    assert (Hn : filter (fun y => negb (inc c y)) l = []).
    { clear - Hall. induction l as [|y l IH]; [reflexivity|]. cbn [filter]. rewrite (Hall y (or_introl eq_refl)). cbn [negb]. apply IH. intros z Hz. apply Hall. right. exact Hz. }
    rewrite Hf, Hn. reflexivity.
  - cbn [length skipn]. apply IH. exact H1.
Qed.

Lemma search_count t : forall l, ordered l ->
  search rev t l = length (filter (fun x => negb (inc (CGe t) x)) l).
Proof.
  induction l as [|x l IH]; intros H; [reflexivity|]. destruct (ordered_inv _ _ H) as [H1 H2]. cbn [search filter].
  unfold inc at 1. cbn [in_cut]. destruct (at_or_after rev t (fst x)) eqn:E; cbn [negb].
  - assert (Hn : filter (fun y => negb (inc (CGe t) y)) l = []).
    { assert (Hall : forall y, In y l -> inc (CGe t) y = true).
      { intros y Hy. rewrite Forall_forall in H2. unfold inc. eapply (in_cut_up (CGe t)); [exact E|apply H2; exact Hy]. }
      clear - Hall. induction l as [|y l IH]; [reflexivity|]. cbn [filter]. rewrite (Hall y (or_introl eq_refl)). cbn [negb]. apply IH. intros z Hz. apply Hall. right. exact Hz. }
    rewrite Hn. reflexivity.
  - cbn [length]. f_equal. apply IH. exact H1.
Qed.

(* ---- one shard iterator ---------------------------------------------------------------------------- *)
Definition s_rem (s : sit) : list (bytes * pos) := skipn (s_cur s) (s_vals s).
(* the shard iterator stands where the cut says *)
Definition SInv (c : cut) (s : sit) : Prop := ordered (s_vals s) /\ s_rem s = filter (inc c) (s_vals s).

Lemma s_valid_rem s : s_valid s = true <-> s_rem s <> [].
Proof.
  unfold s_valid, s_rem. rewrite Nat.ltb_lt. split.
  - intros H E. assert (length (skipn (s_cur s) (s_vals s)) = 0)%nat by (rewrite E; reflexivity). rewrite skipn_length in H0. lia.
  - intros H. destruct (Nat.lt_ge_cases (s_cur s) (length (s_vals s))) as [Hl|Hg]; [exact Hl|]. exfalso. apply H. apply skipn_all2. exact Hg.
Qed.
Lemma nth_error_skipn {A} : forall (l : list A) n, nth_error l n = hd_error (skipn n l).
Proof. induction l as [|x l IH]; intros n; destruct n; cbn; auto. Qed.
Lemma s_head_rem s : s_head s = hd_error (s_rem s).
Proof. apply nth_error_skipn. Qed.

Lemma s_rewind_inv s : ordered (s_vals s) -> SInv CAll (s_rewind s) /\ s_vals (s_rewind s) = s_vals s.
Proof.
  intros Ho. assert (Hall : forall l : list (bytes * pos), filter (inc CAll) l = l) by (induction l as [|x l IH]; cbn; [reflexivity|f_equal; exact IH]).
  unfold s_rewind, SInv, s_rem. destruct (s_kind s); cbn [s_vals s_cur skipn]; try (split; [split; [exact Ho|symmetry; apply Hall]|reflexivity]).
  destruct (Nat.eqb (length (s_vals s)) 0) eqn:E; cbn [s_vals s_cur skipn]; [|split; [split; [exact Ho|symmetry; apply Hall]|reflexivity]].
  apply Nat.eqb_eq in E. destruct (s_vals s) as [|x l] eqn:Ev; [|discriminate]. split; [split; [constructor|]|reflexivity].
  destruct (s_cur s); reflexivity.
Qed.

Lemma s_seek_inv t s : ordered (s_vals s) -> s_valid s = true ->
  SInv (CGe t) (s_seek rev t s) /\ s_vals (s_seek rev t s) = s_vals s.
Proof.
  intros Ho Hv. assert (H : s_seek rev t s = mkSit (s_kind s) (s_vals s) (search rev t (s_vals s))).
  { unfold s_seek. destruct (s_kind s); [rewrite Hv|..]; reflexivity. }
  rewrite H. unfold SInv, s_rem. cbn [s_vals s_cur]. split; [split; [exact Ho|]|reflexivity].
  rewrite (search_count t _ Ho). symmetry. apply filter_cut_suffix. exact Ho.
Qed.

(* ---- the minimum of the live cursors (heap.items[0]) and its removal (heap.Pop) ------------------- *)
Definition hkey (s : sit) : bytes := match s_head s with Some x => fst x | None => [] end.

Lemma min_live_spec : forall l, l <> [] -> Forall (fun s => s_valid s = true) l ->
  exists m, min_live rev l = Some m /\ In m l /\ forall s, In s l -> kb (hkey s) (hkey m) = false.
Proof.
  induction l as [|s l IH]; intros Hne Hv; [contradiction|]. cbn [min_live].
  pose proof (Forall_inv Hv) as Hs. pose proof (Forall_inv_tail Hv) as Hl.
  destruct l as [|s2 l2].
  - cbn [min_live]. exists s. split; [reflexivity|]. split; [left; reflexivity|]. intros s0 Hin0. destruct Hin0 as [Heq|Hf]; [subst s0; apply kb_irrefl|destruct Hf].
  - destruct (IH ltac:(discriminate) Hl) as (m & Hm & Hin & Hmin). rewrite Hm.
    assert (Hhs : exists a, s_head s = Some a).
    { rewrite s_head_rem. apply s_valid_rem in Hs. destruct (s_rem s) as [|hx hl]; [exfalso; apply Hs; reflexivity|exists hx; reflexivity]. }
    assert (Hhm : exists b, s_head m = Some b).
    { rewrite s_head_rem. rewrite Forall_forall in Hl. pose proof (Hl m Hin) as Hmv. apply s_valid_rem in Hmv. destruct (s_rem m) as [|hx hl]; [exfalso; apply Hmv; reflexivity|exists hx; reflexivity]. }
    destruct Hhs as [a Ha]. destruct Hhm as [b Hb]. rewrite Ha, Hb.
    destruct (kb (fst a) (fst b)) eqn:E.
    + exists s. split; [reflexivity|]. split; [left; reflexivity|]. intros s0 [<-|Hin0]; [apply kb_irrefl|].
      unfold hkey at 2. rewrite Ha. destruct (kb (hkey s0) (fst a)) eqn:E2; [|reflexivity].
      pose proof (Hmin s0 Hin0) as H0. unfold hkey at 2 in H0. rewrite Hb in H0.
      rewrite (kb_trans _ _ _ E2 E) in H0. discriminate.
    + exists m. split; [reflexivity|]. split; [right; exact Hin|]. intros s0 [<-|Hin0]; [|apply Hmin; exact Hin0].
      unfold hkey. rewrite Ha, Hb. exact E.
Qed.

Lemma remove_min_perm : forall l m, Forall (fun s => s_valid s = true) l -> min_live rev l = Some m ->
  Permutation l (m :: remove_min rev l).
Proof.
  induction l as [|s l IH]; intros m Hv Hm; [discriminate|]. cbn [min_live remove_min] in *.
  pose proof (Forall_inv Hv) as Hs. pose proof (Forall_inv_tail Hv) as Hl.
  destruct (min_live rev l) as [m0|] eqn:E0.
  - assert (Hhs : exists a, s_head s = Some a).
    { rewrite s_head_rem. apply s_valid_rem in Hs. destruct (s_rem s) as [|hx hl]; [exfalso; apply Hs; reflexivity|exists hx; reflexivity]. }
    assert (Hin0 : In m0 l).
    { destruct l as [|s2 l2]; [discriminate|]. destruct (min_live_spec (s2 :: l2) ltac:(discriminate) Hl) as (mm & H1 & H2 & _). congruence. }
    assert (Hhm : exists b, s_head m0 = Some b).
    { rewrite s_head_rem. rewrite Forall_forall in Hl. pose proof (Hl m0 Hin0) as Hmv. apply s_valid_rem in Hmv. destruct (s_rem m0) as [|hx hl]; [exfalso; apply Hmv; reflexivity|exists hx; reflexivity]. }
    destruct Hhs as [a Ha]. destruct Hhm as [b Hb]. rewrite Ha, Hb in *.
    destruct (kb (fst a) (fst b)); injection Hm as <-.
    + apply Permutation_refl.
    + eapply perm_trans; [apply perm_skip; apply (IH m0 Hl eq_refl)|apply perm_swap].
  - injection Hm as <-. destruct l as [|s2 l2]; [apply Permutation_refl|].
    exfalso. destruct (min_live_spec (s2 :: l2) ltac:(discriminate) Hl) as (mm & H1 & _). congruence.
Qed.

End Iter.

(* ---- the sharded iterator over a partition of the ordered snapshot ------------------------------- *)
Section Sharded.
Variable rev : bool.
Notation kb := (key_before rev).
Notation ordered := (ordered rev).
Notation inc := (inc rev).
Notation SInv := (SInv rev).

Variable S : list (bytes * pos).          (* the snapshot, in iteration order *)
Hypothesis HS : ordered S.
Variable SH : list (list (bytes * pos)).   (* its non-empty shards *)
Hypothesis SH_sub : forall v, In v SH -> exists q, v = filter q S.
Hypothesis SH_cover : forall x, In x S -> exists v, In v SH /\ In x v.
Hypothesis SH_disj : forall v1 v2 x, In v1 SH -> In v2 SH -> In x v1 -> In x v2 -> v1 = v2.
Hypothesis SH_nodup : NoDup SH.
Hypothesis SH_nonempty : forall v, In v SH -> v <> [].

Definition spec_rem (c : cut) : list (bytes * pos) := filter (inc c) S.

Definition Rel (it : iit) (c : cut) : Prop :=
  i_rev it = rev /\ Permutation (map s_vals (i_live it ++ i_old it)) SH /\
  Forall (fun s => s_valid s = true) (i_live it) /\ Forall (fun s => s_valid s = false) (i_old it) /\
  Forall (SInv c) (i_live it ++ i_old it).

Lemma filter_comm {A} (p q : A -> bool) l : filter p (filter q l) = filter q (filter p l).
Proof. induction l as [|x l IH]; [reflexivity|]. cbn [filter]. destruct (q x) eqn:Eq; destruct (p x) eqn:Ep; cbn [filter]; rewrite ?Eq, ?Ep, IH; reflexivity. Qed.

(* what a shard iterator still has to yield: its share of what the whole iterator has to yield *)
Lemma shard_rem c s q : s_vals s = filter q S -> SInv c s -> s_rem s = filter q (spec_rem c).
Proof. intros Hv [_ Hr]. rewrite Hr, Hv. unfold spec_rem. apply filter_comm. Qed.

Lemma ordered_keys_inj x y : In x S -> In y S -> fst x = fst y -> x = y.
Proof.
  clear - HS. induction S as [|z l IH]; intros Hx Hy Hk; [destruct Hx|]. destruct (ordered_inv rev _ _ HS) as [H1 H2].
  rewrite Forall_forall in H2. destruct Hx as [->|Hx]; destruct Hy as [->|Hy]; auto.
  - pose proof (H2 _ Hy) as H. rewrite Hk, (kb_irrefl rev) in H. discriminate.
  - pose proof (H2 _ Hx) as H. rewrite <- Hk, (kb_irrefl rev) in H. discriminate.
Qed.

Lemma rel_shard it c s : Rel it c -> In s (i_live it ++ i_old it) ->
  In (s_vals s) SH /\ exists q, s_vals s = filter q S /\ s_rem s = filter q (spec_rem c).
Proof.
  intros (_ & Hp & _ & _ & Hs) Hin.
  assert (Hv : In (s_vals s) SH) by (eapply Permutation_in; [exact Hp|apply in_map; exact Hin]).
  split; [exact Hv|]. destruct (SH_sub _ Hv) as [q Hq]. exists q. split; [exact Hq|].
  rewrite Forall_forall in Hs. exact (shard_rem c s q Hq (Hs s Hin)).
Qed.

(* the shard iterator that holds a given element of the snapshot *)
Lemma rel_owner it c x : Rel it c -> In x S -> exists s, In s (i_live it ++ i_old it) /\ In x (s_vals s).
Proof.
  intros (_ & Hp & _) Hx. destruct (SH_cover x Hx) as (v & Hv & Hxv).
  apply (Permutation_in _ (Permutation_sym Hp)) in Hv. apply in_map_iff in Hv. destruct Hv as (s & <- & Hs). eauto.
Qed.

Theorem rel_valid it c : Rel it c -> i_valid it = negb (match spec_rem c with [] => true | _ => false end).
Proof.
  intros HR. pose proof HR as (_ & _ & Hl & Ho & _). unfold i_valid.
  destruct (i_live it) as [|s l] eqn:El.
  - destruct (spec_rem c) as [|x r] eqn:Er; [reflexivity|exfalso].
    assert (Hx : In x (spec_rem c)) by (rewrite Er; left; reflexivity).
    unfold spec_rem in Hx. apply filter_In in Hx. destruct Hx as [HxS Hxc].
    destruct (rel_owner it c x HR HxS) as (s & Hs & Hxs). rewrite El in Hs. cbn [app] in Hs.
    destruct (rel_shard it c s HR ltac:(rewrite El; exact Hs)) as (_ & q & Hq & Hrem).
    rewrite Forall_forall in Ho. pose proof (Ho s Hs) as Hinv.
    assert (Hne : s_rem s <> []).
    { rewrite Hrem, Er. rewrite Hq in Hxs. apply filter_In in Hxs. intros E.
      assert (Hin : In x (filter q (x :: r))) by (apply filter_In; split; [left; reflexivity|tauto]). rewrite E in Hin. destruct Hin. }
    apply s_valid_rem in Hne. congruence.
  - destruct (spec_rem c) as [|x r] eqn:Er; [exfalso|reflexivity].
    destruct (rel_shard it c s HR ltac:(rewrite El; left; reflexivity)) as (_ & q & Hq & Hrem).
    pose proof (Forall_inv Hl) as Hv. apply s_valid_rem in Hv. apply Hv. rewrite Hrem, Er. reflexivity.
Qed.

(* the head of the ordered remainder comes before everything else in it *)
Lemma spec_rem_head c x r : spec_rem c = x :: r -> forall y, In y r -> kb (fst x) (fst y) = true.
Proof.
  intros E y Hy. assert (Ho : ordered (x :: r)) by (rewrite <- E; apply ordered_filter; exact HS).
  destruct (ordered_inv rev _ _ Ho) as [_ H]. rewrite Forall_forall in H. exact (H y Hy).
Qed.

Theorem rel_cur it c : Rel it c -> i_cur it = hd_error (spec_rem c).
Proof.
  intros HR. pose proof HR as (Hrev & _ & Hl & Ho & _). unfold i_cur. rewrite Hrev.
  pose proof (rel_valid it c HR) as Hval. unfold i_valid in Hval.
  destruct (i_live it) as [|s0 l0] eqn:El.
  - cbn [min_live]. destruct (spec_rem c); [reflexivity|discriminate].
  - destruct (spec_rem c) as [|x r] eqn:Er; [discriminate|]. rewrite <- El in *.
    destruct (min_live_spec rev (i_live it) ltac:(rewrite El; discriminate) Hl) as (m & Hm & Hin & Hmin). rewrite Hm.
    (* the owner of x is live and x is its head *)
    assert (HxS : In x S) by (assert (H : In x (spec_rem c)) by (rewrite Er; left; reflexivity); apply filter_In in H; tauto).
    destruct (rel_owner it c x HR HxS) as (sx & Hsx & Hxsx).
    destruct (rel_shard it c sx HR Hsx) as (_ & qx & Hqx & Hremx).
    assert (Hqxx : qx x = true) by (rewrite Hqx in Hxsx; apply filter_In in Hxsx; tauto).
    assert (Hheadx : s_head sx = Some x) by (rewrite s_head_rem, Hremx, Er; cbn [filter]; rewrite Hqxx; reflexivity).
    assert (Hlivex : In sx (i_live it)).
    { apply in_app_or in Hsx. destruct Hsx as [H|H]; [exact H|exfalso]. rewrite Forall_forall in Ho. pose proof (Ho sx H) as Hinv.
      assert (Hne : s_rem sx <> []) by (rewrite Hremx, Er; cbn [filter]; rewrite Hqxx; discriminate).
      apply s_valid_rem in Hne. congruence. }
    (* the head of the minimum is an element of the remainder that nothing precedes: it is x *)
    destruct (rel_shard it c m HR ltac:(apply in_or_app; left; exact Hin)) as (_ & qm & Hqm & Hremm).
    rewrite Forall_forall in Hl. pose proof (Hl m Hin) as Hmv. apply s_valid_rem in Hmv.
    rewrite s_head_rem. destruct (s_rem m) as [|y ry] eqn:Erm; [contradiction|]. cbn [hd_error]. f_equal.
    assert (Hy : In y (x :: r)).
    { assert (H : In y (filter qm (x :: r))) by (rewrite <- Er, <- Hremm; left; reflexivity). apply filter_In in H. tauto. }
    destruct Hy as [<-|Hy]; [reflexivity|exfalso].
    pose proof (spec_rem_head c x r Er y Hy) as Hxy.
    pose proof (Hmin sx Hlivex) as Hn. unfold hkey in Hn. rewrite Hheadx in Hn. rewrite s_head_rem, Erm in Hn. cbn [hd_error fst] in Hn.
    congruence.
Qed.


(* ---- Rewind ------------------------------------------------------------------------------------------ *)
Lemma rel_ordered it c s : Rel it c -> In s (i_live it ++ i_old it) -> ordered (s_vals s).
Proof. intros HR Hin. destruct (rel_shard it c s HR Hin) as (_ & q & -> & _). apply ordered_filter. exact HS. Qed.

Theorem rel_rewind it c : Rel it c -> Rel (i_rewind it) CAll.
Proof.
  intros HR. pose proof HR as (Hrev & Hp & Hl & Ho & Hs). unfold i_rewind, Rel. cbn [i_rev i_live i_old]. rewrite app_nil_r.
  assert (Hvals : forall s, In s (i_live it ++ i_old it) -> s_vals (s_rewind s) = s_vals s /\ SInv CAll (s_rewind s) /\ s_valid (s_rewind s) = true).
  { intros s Hin. destruct (s_rewind_inv rev s (rel_ordered it c s HR Hin)) as [Hi Hv]. split; [exact Hv|]. split; [exact Hi|].
    apply s_valid_rem. destruct Hi as [_ Hr]. rewrite Hr, Hv.
    destruct (rel_shard it c s HR Hin) as (HinSH & _). pose proof (SH_nonempty _ HinSH) as Hne.
    destruct (s_vals s) as [|x l]; [contradiction|]. cbn. discriminate. }
  rewrite <- map_app.
  split; [exact Hrev|]. split; [|split; [|split; [constructor|]]].
  - rewrite map_map. erewrite map_ext_in; [exact Hp|]. intros s Hin. apply Hvals. exact Hin.
  - apply Forall_forall. intros s' Hin. apply in_map_iff in Hin. destruct Hin as (s & <- & Hin). apply Hvals. exact Hin.
  - apply Forall_forall. intros s' Hin. apply in_map_iff in Hin. destruct Hin as (s & <- & Hin). apply Hvals. exact Hin.
Qed.

(* ---- Seek ---------------------------------------------------------------------------------------------- *)
(* the target has not been passed: every key the cursor has left behind lies before it *)
Definition seek_ok (c : cut) (t : bytes) : Prop :=
  forall x, In x S -> inc c x = false -> kb (fst x) t = true.

Lemma filter_partition_perm {A} (p : A -> bool) l : Permutation (filter p l ++ filter (fun x => negb (p x)) l) l.
Proof.
  induction l as [|x l IH]; [constructor|]. cbn [filter]. destruct (p x); cbn [negb app].
  - apply perm_skip. exact IH.
  - eapply perm_trans; [apply Permutation_sym; apply Permutation_middle|]. apply perm_skip. exact IH.
Qed.

Theorem rel_seek it c t : Rel it c -> seek_ok c t -> Rel (i_seek it t) (if i_valid it then CGe t else c).
Proof.
  intros HR Hok. pose proof HR as (Hrev & Hp & Hl & Ho & Hs). unfold i_seek.
  destruct (i_valid it) eqn:Hv; [|exact HR]. rewrite Hrev.
  set (moved := map (s_seek rev t) (i_live it)).
  assert (Hmv : forall s, In s (i_live it) -> s_vals (s_seek rev t s) = s_vals s /\ SInv (CGe t) (s_seek rev t s)).
  { intros s Hin. rewrite Forall_forall in Hl.
    destruct (s_seek_inv rev t s (rel_ordered it c s HR (in_or_app _ _ _ (or_introl Hin))) (Hl s Hin)) as [A B]. auto. }
  unfold Rel. cbn [i_rev i_live i_old].
  split; [reflexivity|]. split; [|split; [|split]].
  - (* the same shards *)
    eapply perm_trans; [|exact Hp]. rewrite !map_app.
    eapply perm_trans; [apply Permutation_app_head; apply Permutation_app_comm|].
    rewrite app_assoc. apply Permutation_app_tail. rewrite <- map_app.
    eapply perm_trans; [apply Permutation_map; apply filter_partition_perm|].
    unfold moved. rewrite map_map. erewrite map_ext_in; [apply Permutation_refl|]. intros s Hin. apply Hmv. exact Hin.
  - apply Forall_forall. intros s Hin. apply filter_In in Hin. tauto.
  - apply Forall_app. split; [exact Ho|]. apply Forall_forall. intros s Hin. apply filter_In in Hin. destruct Hin as [_ H].
    destruct (s_valid s); [discriminate|reflexivity].
  - apply Forall_app. split; [|apply Forall_app; split].
    + apply Forall_forall. intros s' Hin. apply filter_In in Hin. destruct Hin as [Hin _]. unfold moved in Hin.
      apply in_map_iff in Hin. destruct Hin as (s & <- & Hin). apply Hmv. exact Hin.
    + (* the parked iterators: everything they hold has been passed, hence lies before the target *)
      apply Forall_forall. intros s Hin. rewrite Forall_forall in Ho, Hs. pose proof (Ho s Hin) as Hinv.
      pose proof (Hs s (in_or_app _ _ _ (or_intror Hin))) as [Hord Hrem].
      split; [exact Hord|]. 
      assert (Hempty : s_rem s = []).
      { destruct (s_rem s) eqn:E; [reflexivity|]. assert (Hne : s_rem s <> []) by (rewrite E; discriminate). apply s_valid_rem in Hne. congruence. }
      rewrite Hempty. symmetry.
      destruct (rel_shard it c s HR (in_or_app _ _ _ (or_intror Hin))) as (_ & q & Hq & _).
      assert (Hall : forall x, In x (s_vals s) -> inc (CGe t) x = false).
      { intros x Hx. assert (HxS : In x S) by (rewrite Hq in Hx; apply filter_In in Hx; tauto).
        assert (Hc : inc c x = false).
        { destruct (inc c x) eqn:E; [|reflexivity]. exfalso.
          assert (H : In x (filter (inc c) (s_vals s))) by (apply filter_In; auto). rewrite <- Hrem, Hempty in H. destruct H. }
        unfold IndexProofs.inc, in_cut, at_or_after. rewrite (Hok x HxS Hc). reflexivity. }
      clear - Hall. induction (s_vals s) as [|x l IH]; [reflexivity|]. cbn [filter]. rewrite (Hall x (or_introl eq_refl)).
      apply IH. intros y Hy. apply Hall. right. exact Hy.
    + apply Forall_forall. intros s' Hin. apply filter_In in Hin. destruct Hin as [Hin _]. unfold moved in Hin.
      apply in_map_iff in Hin. destruct Hin as (s & <- & Hin). apply Hmv. exact Hin.
Qed.


(* ---- Next ---------------------------------------------------------------------------------------------- *)
Lemma ordered_app_inv a : forall b, ordered (a ++ b) ->
  ordered a /\ ordered b /\ forall x y, In x a -> In y b -> kb (fst x) (fst y) = true.
Proof.
  induction a as [|z a IH]; intros b H; cbn [app] in *.
  - split; [constructor|]. split; [exact H|]. intros x y [].
  - destruct (ordered_inv rev _ _ H) as [H1 H2]. destruct (IH b H1) as (A & B & C).
    rewrite Forall_forall in H2. split; [|split; [exact B|]].
    + constructor; [exact A|]. apply Forall_forall. intros y Hy. apply H2. apply in_or_app. left. exact Hy.
    + intros x y [<-|Hx] Hy; [apply H2; apply in_or_app; right; exact Hy|apply C; assumption].
Qed.

Lemma filter_all_true {A} (p : A -> bool) l : (forall x, In x l -> p x = true) -> filter p l = l.
Proof. induction l as [|x l IH]; intros H; [reflexivity|]. cbn [filter]. rewrite (H x (or_introl eq_refl)). f_equal. apply IH. intros y Hy. apply H. right. exact Hy. Qed.
Lemma filter_all_false {A} (p : A -> bool) l : (forall x, In x l -> p x = false) -> filter p l = [].
Proof. induction l as [|x l IH]; intros H; [reflexivity|]. cbn [filter]. rewrite (H x (or_introl eq_refl)). apply IH. intros y Hy. apply H. right. exact Hy. Qed.

(* stepping past the head of the remainder leaves its tail *)
Lemma spec_rem_next c x r : spec_rem c = x :: r -> spec_rem (CGt (fst x)) = r.
Proof.
  intros E. unfold spec_rem in *. rewrite (filter_cut_suffix rev c S HS) in E.
  set (n := length (filter (fun y => negb (inc c y)) S)) in *.
  pose proof (firstn_skipn n S) as Hsplit. rewrite E in Hsplit.
  pose proof HS as Ho. rewrite <- Hsplit in Ho. destruct (ordered_app_inv _ _ Ho) as (_ & Hxr & Hpre).
  destruct (ordered_inv rev _ _ Hxr) as [_ Hr]. rewrite Forall_forall in Hr.
  rewrite <- Hsplit, filter_app. cbn [filter]. unfold IndexProofs.inc at 2. cbn [in_cut]. rewrite (kb_irrefl rev).
  rewrite (filter_all_false _ (firstn n S)), (filter_all_true _ r); [reflexivity| |].
  - intros y Hy. unfold IndexProofs.inc. cbn [in_cut]. apply Hr. exact Hy.
  - intros y Hy. unfold IndexProofs.inc. cbn [in_cut]. apply (kb_asym rev). apply Hpre; [exact Hy|left; reflexivity].
Qed.

Lemma skipn_S_tl {A} : forall (l : list A) n, skipn (Datatypes.S n) l = tl (skipn n l).
Proof.
  induction l as [|z l IHl]; intros n.
  - destruct n; reflexivity.
  - destruct n; [reflexivity|]. cbn [skipn]. rewrite <- IHl. reflexivity.
Qed.

Lemma NoDup_map_neq {A B} (f : A -> B) l a b : NoDup (map f (a :: l)) -> In b l -> f a <> f b.
Proof. intros H Hb E. cbn [map] in H. inversion H; subst. apply H2. rewrite E. apply in_map. exact Hb. Qed.

Theorem rel_next it c : Rel it c ->
  Rel (i_next it) (match hd_error (spec_rem c) with Some x => CGt (fst x) | None => c end).
Proof.
  intros HR. pose proof HR as (Hrev & Hp & Hl & Ho & Hs). pose proof (rel_cur it c HR) as Hcur. unfold i_cur in Hcur.
  unfold i_next. rewrite Hrev in *.
  destruct (i_live it) as [|s0 l0] eqn:El.
  - cbn [min_live] in *. rewrite <- Hcur. rewrite <- El in *. exact HR.
  - rewrite <- El in *.
    destruct (min_live_spec rev (i_live it) ltac:(rewrite El; discriminate) Hl) as (m & Hm & Hin & Hmin). rewrite Hm in *.
    pose proof (remove_min_perm rev (i_live it) m Hl Hm) as Hperm.
    set (rest := remove_min rev (i_live it)) in *.
    (* the head of the minimum is the head x of the remainder *)
    assert (Hmv : s_valid m = true) by (rewrite Forall_forall in Hl; exact (Hl m Hin)).
    destruct (spec_rem c) as [|x r] eqn:Er.
    { exfalso. apply s_valid_rem in Hmv. rewrite s_head_rem in Hcur. destruct (s_rem m); [contradiction|discriminate]. }
    cbn [hd_error] in *. set (c' := CGt (fst x)).
    pose proof (spec_rem_next c x r Er) as Er'. fold c' in Er'.
    assert (Hmall : In m (i_live it ++ i_old it)) by (apply in_or_app; left; exact Hin).
    destruct (rel_shard it c m HR Hmall) as (HmSH & qm & Hqm & Hremm).
    assert (Hqmx : qm x = true).
    { rewrite s_head_rem, Hremm, Er in Hcur. cbn [filter] in Hcur. destruct (qm x) eqn:E; [reflexivity|exfalso].
      (* the head of filter qm r would be x: impossible, x is not in r *)
      destruct (filter qm r) as [|y ry] eqn:Ef; [discriminate|]. injection Hcur as ->.
      assert (Hy : In x r) by (assert (H : In x (filter qm r)) by (rewrite Ef; left; reflexivity); apply filter_In in H; tauto).
      pose proof (spec_rem_head c x r Er x Hy) as H. rewrite (kb_irrefl rev) in H. discriminate. }
    (* the stepped iterator *)
    assert (Hnext : s_next m = mkSit (s_kind m) (s_vals m) (Datatypes.S (s_cur m))) by (unfold s_next; destruct (s_kind m); [rewrite Hmv|..]; reflexivity).
    assert (Hrem' : s_rem (s_next m) = filter qm r).
    { rewrite Hnext. unfold s_rem in *. cbn [s_vals s_cur]. 
      rewrite skipn_S_tl, Hremm, Er. cbn [filter]. rewrite Hqmx. reflexivity. }
    assert (Hinv' : SInv c' (s_next m)).
    { split; [rewrite Hnext; cbn [s_vals]; exact (rel_ordered it c m HR Hmall)|].
      rewrite Hrem', Hnext. cbn [s_vals]. rewrite Hqm, <- Er'. unfold spec_rem. apply filter_comm. }
    (* the other iterators do not hold x: for them the two cuts agree *)
    assert (Hnd : NoDup (map s_vals (m :: rest ++ i_old it))).
    { eapply Permutation_NoDup; [|exact SH_nodup]. apply Permutation_sym. eapply perm_trans; [|exact Hp].
      apply Permutation_map. change (m :: rest ++ i_old it) with ((m :: rest) ++ i_old it). apply Permutation_app_tail. apply Permutation_sym. exact Hperm. }
    assert (Hin_all : forall s, In s (rest ++ i_old it) -> In s (i_live it ++ i_old it)).
    { intros s H. apply in_app_or in H. apply in_or_app. destruct H as [H|H]; [left|right; exact H].
      eapply Permutation_in; [apply Permutation_sym; exact Hperm|right; exact H]. }
    assert (Hothers : forall s, In s (rest ++ i_old it) -> SInv c' s).
    { intros s Hs0. pose proof (Hin_all s Hs0) as Hsall.
      destruct (rel_shard it c s HR Hsall) as (HsSH & qs & Hqs & Hrems).
      assert (Hqsx : qs x = false).
      { destruct (qs x) eqn:E; [exfalso|reflexivity].
        assert (HxS : In x S) by (assert (H : In x (spec_rem c)) by (rewrite Er; left; reflexivity); apply filter_In in H; tauto).
        assert (Hx1 : In x (s_vals s)) by (rewrite Hqs; apply filter_In; auto).
        assert (Hx2 : In x (s_vals m)) by (rewrite Hqm; apply filter_In; auto).
        pose proof (SH_disj _ _ x HsSH HmSH Hx1 Hx2) as Heq.
        exact (NoDup_map_neq s_vals _ m s Hnd Hs0 (eq_sym Heq)). }
      split; [exact (rel_ordered it c s HR Hsall)|].
      rewrite Hrems, Er. cbn [filter]. rewrite Hqsx. rewrite Hqs, <- Er'. unfold spec_rem. apply filter_comm. }
    assert (Hrest_valid : Forall (fun s => s_valid s = true) rest).
    { apply Forall_forall. intros s H. rewrite Forall_forall in Hl. apply Hl. eapply Permutation_in; [apply Permutation_sym; exact Hperm|right; exact H]. }
    assert (Hvals_next : s_vals (s_next m) = s_vals m) by (rewrite Hnext; reflexivity).
    destruct (s_valid (s_next m)) eqn:Hv'; unfold Rel; cbn [i_rev i_live i_old].
    + split; [reflexivity|]. split; [|split; [|split; [exact Ho|]]].
      * eapply perm_trans; [|exact Hp]. cbn [app map]. rewrite Hvals_next. 
        change (s_vals m :: map s_vals (rest ++ i_old it)) with (map s_vals ((m :: rest) ++ i_old it)).
        apply Permutation_map. apply Permutation_app_tail. apply Permutation_sym. exact Hperm.
      * constructor; [exact Hv'|exact Hrest_valid].
      * cbn [app]. constructor; [exact Hinv'|]. apply Forall_forall. exact Hothers.
    + split; [reflexivity|]. split; [|split; [exact Hrest_valid|split]].
      * eapply perm_trans; [|exact Hp]. rewrite app_assoc, map_app. cbn [map]. rewrite Hvals_next.
        eapply perm_trans; [apply Permutation_sym; apply Permutation_cons_append|].
        change (s_vals m :: map s_vals (rest ++ i_old it)) with (map s_vals ((m :: rest) ++ i_old it)).
        apply Permutation_map. apply Permutation_app_tail. apply Permutation_sym. exact Hperm.
      * apply Forall_app. split; [exact Ho|]. constructor; [exact Hv'|constructor].
      * rewrite app_assoc. apply Forall_app. split; [apply Forall_forall; exact Hothers|]. constructor; [exact Hinv'|constructor].
Qed.


(* ---- creation ------------------------------------------------------------------------------------------ *)
Theorem rel_new kind SH0 : SH = filter (fun v => Nat.ltb 0 (length v)) SH0 -> Rel (i_new kind rev SH0) CAll.
Proof.
  intros HSH. unfold i_new, Rel. cbn [i_rev i_live i_old]. rewrite app_nil_r.
  assert (Hmap : map s_vals (filter s_valid (map (fun v => mkSit kind v 0) SH0)) = SH).
  { rewrite HSH. clear. induction SH0 as [|v l IH]; [reflexivity|]. cbn [map filter]. unfold s_valid at 1. cbn [s_cur s_vals].
    destruct (Nat.ltb 0 (length v)); cbn [map]; rewrite IH; reflexivity. }
  split; [reflexivity|]. split; [rewrite Hmap; apply Permutation_refl|]. split; [|split; [constructor|]].
  - apply Forall_forall. intros s Hin. apply filter_In in Hin. tauto.
  - apply Forall_forall. intros s Hin.
    assert (HvSH : In (s_vals s) SH) by (rewrite <- Hmap; apply in_map; exact Hin).
    apply filter_In in Hin. destruct Hin as [Hin _]. apply in_map_iff in Hin. destruct Hin as (v & <- & _).
    cbn [s_vals] in HvSH. destruct (SH_sub _ HvSH) as [q Hq]. split; cbn [s_vals].
    + rewrite Hq. apply ordered_filter. exact HS.
    + unfold s_rem. cbn [s_cur s_vals skipn]. symmetry. apply filter_all_true. reflexivity.
Qed.

(* ---- iterator.go: the prefix filter -------------------------------------------------------------------- *)
Variable prefix : bytes.
Definition pfx (x : bytes * pos) : bool := has_prefix prefix (fst x).
(* the reference: the ordered snapshot restricted to the keys with the prefix *)
Definition F : list (bytes * pos) := filter pfx S.
Definition ref_obs (c : cut) : option (bytes * pos) := hd_error (filter (inc c) F).

(* the implementation stands on a key with the prefix (or is exhausted) *)
Definition positioned (c : cut) : Prop := match spec_rem c with [] => True | x :: _ => pfx x = true end.

Lemma skip_rel : forall fuel it c, Rel it c -> (length (spec_rem c) < fuel)%nat ->
  exists c', Rel (skip_to_next fuel prefix it) c' /\ positioned c' /\ filter pfx (spec_rem c') = filter pfx (spec_rem c).
Proof.
  induction fuel as [|fuel IH]; intros it c HR Hf; [lia|]. cbn [skip_to_next].
  rewrite (rel_cur it c HR). destruct (spec_rem c) as [|x r] eqn:Er; cbn [hd_error].
  - exists c. split; [exact HR|]. split; [unfold positioned; rewrite Er; exact I|rewrite Er; reflexivity].
  - destruct x as [k p]. destruct (has_prefix prefix k) eqn:Ep.
    + exists c. split; [exact HR|]. split; [unfold positioned; rewrite Er; exact Ep|rewrite Er; reflexivity].
    + pose proof (rel_next it c HR) as HRn. rewrite Er in HRn. cbn [hd_error fst] in HRn.
      pose proof (spec_rem_next c (k, p) r Er) as Er'. cbn [fst] in Er'.
      destruct (IH (i_next it) (CGt k) HRn ltac:(rewrite Er'; cbn [length] in Hf; lia)) as (c' & A & B & C).
      exists c'. split; [exact A|]. split; [exact B|]. rewrite C, Er'. cbn [filter]. unfold pfx at 2. cbn [fst]. rewrite Ep. reflexivity.
Qed.

Lemma total_len_bound it c : Rel it c -> (length (spec_rem c) <= total_len it)%nat.
Proof.
  intros (_ & Hp & _). unfold total_len.
  assert (Hsum : forall l : list sit, fold_right (fun s n => (length (s_vals s) + n)%nat) O l = length (concat (map s_vals l))).
  { induction l as [|s l IH]; [reflexivity|]. cbn [fold_right map concat]. rewrite app_length, IH. reflexivity. }
  rewrite Hsum.
  (* every element of the remainder lies in exactly one shard *)
  assert (Hnd : NoDup (spec_rem c)).
  { assert (Ho : ordered (spec_rem c)) by (apply ordered_filter; exact HS). clear - Ho. induction (spec_rem c) as [|x l IH]; [constructor|].
    destruct (ordered_inv rev _ _ Ho) as [H1 H2]. constructor; [|auto]. intros Hin. rewrite Forall_forall in H2.
    pose proof (H2 x Hin) as H. rewrite (kb_irrefl rev) in H. discriminate. }
  apply NoDup_incl_length; [exact Hnd|]. intros x Hx. unfold spec_rem in Hx. apply filter_In in Hx. destruct Hx as [HxS _].
  destruct (SH_cover x HxS) as (v & Hv & Hxv). apply in_concat. exists v. split; [|exact Hxv].
  eapply Permutation_in; [apply Permutation_sym; exact Hp|exact Hv].
Qed.

(* the database iterator [d] and the reference cut [cr] *)
Definition DRel (d : dbit) (cr : cut) : Prop :=
  di_prefix d = prefix /\
  exists c, Rel (di_it d) c /\ positioned c /\ filter pfx (spec_rem c) = filter (inc cr) F.

Lemma filter_pfx_abs cr : filter pfx (spec_rem cr) = filter (inc cr) F.
Proof. unfold spec_rem, F. apply filter_comm. Qed.

Lemma di_skip_rel it c cr : Rel it c -> filter pfx (spec_rem c) = filter (inc cr) F -> DRel (di_skip (mkDbit it prefix)) cr.
Proof.
  intros HR Heq. unfold di_skip. cbn [di_prefix di_it].
  assert (Hcase : prefix = [] \/ exists b pr, prefix = b :: pr) by (destruct prefix as [|b pr]; [left; reflexivity|right; eauto]).
  destruct Hcase as [Epre|(b & pr & Epre)].
  - rewrite Epre at 1. split; [reflexivity|]. exists c. cbn [di_it]. split; [exact HR|]. split; [|exact Heq].
    unfold positioned. destruct (spec_rem c); [exact I|]. unfold pfx. rewrite Epre. reflexivity.
  - rewrite Epre at 1. cbv beta iota.
    destruct (skip_rel (Datatypes.S (total_len it)) it c HR) as (c' & A & B & C); [pose proof (total_len_bound it c HR); lia|].
    split; [reflexivity|]. exists c'. cbn [di_it]. split; [exact A|]. split; [exact B|]. rewrite C. exact Heq.
Qed.

Theorem drel_obs d cr : DRel d cr -> di_cur d = ref_obs cr /\ di_valid d = match ref_obs cr with Some _ => true | None => false end.
Proof.
  intros (_ & c & HR & Hpos & Heq). unfold di_cur, di_valid, ref_obs. rewrite (rel_cur _ c HR), (rel_valid _ c HR), <- Heq.
  unfold positioned in Hpos. destruct (spec_rem c) as [|x r]; [split; reflexivity|]. cbn [filter hd_error]. rewrite Hpos. split; reflexivity.
Qed.

Theorem drel_new kind SH0 : SH = filter (fun v => Nat.ltb 0 (length v)) SH0 -> DRel (di_new kind rev prefix SH0) CAll.
Proof. intros H. unfold di_new. apply (di_skip_rel _ CAll CAll); [apply rel_new; exact H|apply filter_pfx_abs]. Qed.

Theorem drel_rewind d cr : DRel d cr -> DRel (di_rewind d) CAll.
Proof.
  intros (Hp & c & HR & _). unfold di_rewind. rewrite Hp.
  apply (di_skip_rel _ CAll CAll); [eapply rel_rewind; exact HR|apply filter_pfx_abs].
Qed.

Theorem drel_next d cr : DRel d cr ->
  DRel (di_next d) (match ref_obs cr with Some x => CGt (fst x) | None => cr end).
Proof.
  intros HD. pose proof HD as (Hp & c & HR & Hpos & Heq). unfold di_next. rewrite Hp.
  pose proof (rel_next _ c HR) as HRn. unfold ref_obs. rewrite <- Heq.
  unfold positioned in Hpos. destruct (spec_rem c) as [|x r] eqn:Er; cbn [hd_error filter] in *.
  - apply (di_skip_rel _ c cr); [exact HRn|rewrite Er; exact Heq].
  - rewrite Hpos. cbn [hd_error]. apply (di_skip_rel _ (CGt (fst x)) (CGt (fst x))); [exact HRn|apply filter_pfx_abs].
Qed.

(* everything outside an (upward closed) cut precedes its first element *)
Lemma passed_before c x r y : spec_rem c = x :: r -> In y S -> inc c y = false -> kb (fst y) (fst x) = true.
Proof.
  intros Er Hy Hc. unfold spec_rem in Er. rewrite (filter_cut_suffix rev c S HS) in Er.
  set (n := length (filter (fun z => negb (inc c z)) S)) in *.
  pose proof (firstn_skipn n S) as Hsplit. rewrite Er in Hsplit.
  pose proof HS as Ho. rewrite <- Hsplit in Ho. destruct (ordered_app_inv _ _ Ho) as (_ & _ & Hpre).
  rewrite <- Hsplit in Hy. apply in_app_or in Hy. destruct Hy as [Hy|Hy]; [apply Hpre; [exact Hy|left; reflexivity]|exfalso].
  assert (Hin : In y (filter (inc c) S)).
  { rewrite (filter_cut_suffix rev c S HS). fold n. rewrite Er. exact Hy. }
  apply filter_In in Hin. destruct Hin as [_ H]. congruence.
Qed.

(* Seek to a target at or ahead of the cursor (no condition when the iterator is exhausted) *)
Theorem drel_seek d cr t : DRel d cr ->
  (forall x, ref_obs cr = Some x -> kb t (fst x) = false) ->
  DRel (di_seek d t) (match ref_obs cr with Some _ => CGe t | None => cr end).
Proof.
  intros HD Hlegal. pose proof HD as (Hp & c & HR & Hpos & Heq). destruct (drel_obs d cr HD) as [Hcur Hval].
  unfold di_seek. rewrite Hp. unfold di_valid in Hval.
  assert (Hok : seek_ok c t \/ i_valid (di_it d) = false).
  { destruct (ref_obs cr) as [x|] eqn:Eo; [left|right; exact Hval].
    unfold ref_obs in Eo. rewrite <- Heq in Eo. unfold positioned in Hpos.
    destruct (spec_rem c) as [|x0 r] eqn:Er; [discriminate|]. cbn [filter hd_error] in Eo. rewrite Hpos in Eo. injection Eo as ->.
    intros y Hy Hc. pose proof (passed_before c x r y Er Hy Hc) as Hyx. pose proof (Hlegal x eq_refl) as Htx.
    destruct (bytes_eqb t (fst x)) eqn:Ee; [apply bytes_eqb_eq in Ee; rewrite Ee; exact Hyx|].
    apply bytes_eqb_neq in Ee. exact (kb_trans rev _ _ _ Hyx (kb_total rev _ _ Htx Ee)). }
  destruct Hok as [Hok|Hinv].
  - pose proof (rel_seek _ c t HR Hok) as HRs. rewrite Hval in HRs.
    destruct (ref_obs cr) as [x|].
    + apply (di_skip_rel _ (CGe t) (CGe t)); [exact HRs|apply filter_pfx_abs].
    + apply (di_skip_rel _ c cr); [exact HRs|exact Heq].
  - rewrite Hinv in Hval. destruct (ref_obs cr) as [x|]; [discriminate|].
    unfold i_seek. rewrite Hinv. apply (di_skip_rel _ c cr); [exact HR|exact Heq].
Qed.

End Sharded.

(* ---- the shards of an index satisfy the hypotheses ---------------------------------------------------- *)
Lemma ss_app {A} (R : A -> A -> Prop) a : forall b, StronglySorted R a -> StronglySorted R b ->
  (forall x y, In x a -> In y b -> R x y) -> StronglySorted R (a ++ b).
Proof.
  induction a as [|z a IH]; intros b Ha Hb Hab; [exact Hb|]. cbn [app]. inversion Ha; subst. constructor.
  - apply IH; [assumption|assumption|]. intros x y Hx Hy. apply Hab; [right; exact Hx|exact Hy].
  - apply Forall_app. split; [assumption|]. apply Forall_forall. intros y Hy. apply Hab; [left; reflexivity|exact Hy].
Qed.
Lemma ss_rev {A} (R : A -> A -> Prop) l : StronglySorted R l -> StronglySorted (fun a b => R b a) (List.rev l).
Proof.
  induction l as [|x l IH]; intros H; [constructor|]. inversion H; subst. cbn [List.rev]. apply ss_app.
  - apply IH. assumption.
  - constructor; [constructor|constructor].
  - intros a b Ha [<-|[]]. apply in_rev in Ha. rewrite Forall_forall in H3. apply H3. exact Ha.
Qed.

Lemma ordered_of_sorted rev (ix : list (bytes * pos)) : sorted ix -> ordered rev (if rev then List.rev ix else ix).
Proof.
  intros H. unfold ordered, key_before. destruct rev.
  - apply (ss_rev (fun a b => bytes_ltb (fst a) (fst b) = true)). exact H.
  - exact H.
Qed.

Section Shards.
Variable shf : bytes -> nat.
Variable n : nat.
Hypothesis Hn : (0 < n)%nat.
Variable rev : bool.
Variable ix : list (bytes * pos).
Hypothesis Hix : sorted ix.

Definition snap : list (bytes * pos) := if rev then List.rev ix else ix.
Definition shq (i : nat) (x : bytes * pos) : bool := Nat.eqb (Nat.modulo (shf (fst x)) n) i.
Definition SH0 : list (list (bytes * pos)) := shards_of shf n rev ix.
Definition SHn : list (list (bytes * pos)) := filter (fun v => Nat.ltb 0 (length v)) SH0.

Lemma SH0_eq : SH0 = map (fun i => filter (shq i) snap) (seq 0 n).
Proof. reflexivity. Qed.

Lemma in_SHn v : In v SHn <-> exists i, (i < n)%nat /\ v = filter (shq i) snap /\ v <> [].
Proof.
  unfold SHn. rewrite filter_In, SH0_eq, in_map_iff. split.
  - intros [(i & <- & Hi) Hl]. apply in_seq in Hi. exists i. split; [lia|]. split; [reflexivity|].
    destruct (filter (shq i) snap); [discriminate|discriminate].
  - intros (i & Hi & -> & Hne). split; [exists i; split; [reflexivity|apply in_seq; lia]|].
    destruct (filter (shq i) snap); [contradiction|reflexivity].
Qed.

Lemma shards_sub v : In v SHn -> exists q, v = filter q snap.
Proof. intros H. apply in_SHn in H. destruct H as (i & _ & -> & _). eauto. Qed.
Lemma shards_cover x : In x snap -> exists v, In v SHn /\ In x v.
Proof.
  intros Hx. set (i := Nat.modulo (shf (fst x)) n). exists (filter (shq i) snap).
  assert (Hin : In x (filter (shq i) snap)) by (apply filter_In; split; [exact Hx|unfold shq; apply Nat.eqb_refl]).
  split; [|exact Hin]. apply in_SHn. exists i. split; [apply Nat.mod_upper_bound; lia|]. split; [reflexivity|].
  intros E. rewrite E in Hin. destruct Hin.
Qed.
Lemma shards_disj v1 v2 x : In v1 SHn -> In v2 SHn -> In x v1 -> In x v2 -> v1 = v2.
Proof.
  intros H1 H2 Hx1 Hx2. apply in_SHn in H1, H2. destruct H1 as (i & _ & -> & _). destruct H2 as (j & _ & -> & _).
  apply filter_In in Hx1, Hx2. destruct Hx1 as [_ A]. destruct Hx2 as [_ B]. unfold shq in A, B.
  apply Nat.eqb_eq in A, B. congruence.
Qed.
Lemma shards_nonempty v : In v SHn -> v <> [].
Proof. intros H. apply in_SHn in H. destruct H as (i & _ & _ & Hne). exact Hne. Qed.
Lemma shards_nodup : NoDup SHn.
Proof.
  unfold SHn. rewrite SH0_eq.
  assert (H : forall l, NoDup l -> NoDup (filter (fun v => Nat.ltb 0 (length v)) (map (fun i => filter (shq i) snap) l))).
  { induction l as [|i l IH]; intros Hnd; [constructor|]. inversion Hnd; subst. cbn [map filter].
    destruct (Nat.ltb 0 (length (filter (shq i) snap))) eqn:E; [|auto]. constructor; [|auto].
    intros Hin. apply filter_In in Hin. destruct Hin as [Hin _]. apply in_map_iff in Hin. destruct Hin as (j & Heq & Hj).
    destruct (filter (shq i) snap) as [|x r] eqn:Ef; [discriminate|].
    assert (Hx : In x (filter (shq i) snap)) by (rewrite Ef; left; reflexivity).
    assert (Hx' : In x (filter (shq j) snap)) by (rewrite Heq; left; reflexivity).
    apply filter_In in Hx, Hx'. destruct Hx as [_ A]. destruct Hx' as [_ B]. unfold shq in A, B. apply Nat.eqb_eq in A, B.
    assert (Hij : i = j) by congruence. rewrite <- Hij in Hj. match goal with Hn : ~ In i l |- _ => exact (Hn Hj) end. }
  apply H. apply seq_NoDup.
Qed.

End Shards.

(* ---- call sequences ----------------------------------------------------------------------------------- *)
Inductive iop := IRewind | ISeek (t : bytes) | INext.

Definition di_step (d : dbit) (o : iop) : dbit :=
  match o with IRewind => di_rewind d | ISeek t => di_seek d t | INext => di_next d end.
Definition di_obs (d : dbit) : bool * option (bytes * pos) := (di_valid d, di_cur d).
Fixpoint di_run (d : dbit) (ops : list iop) : list (bool * option (bytes * pos)) :=
  match ops with [] => [] | o :: r => let d' := di_step d o in di_obs d' :: di_run d' r end.

(* the reference iterator: the ordered, prefix-filtered snapshot [L] and a cut *)
Definition robs (rev : bool) (L : list (bytes * pos)) (c : cut) : option (bytes * pos) := hd_error (filter (inc rev c) L).
Definition rstep (rev : bool) (L : list (bytes * pos)) (c : cut) (o : iop) : cut :=
  match o with
  | IRewind => CAll
  | INext => match robs rev L c with Some x => CGt (fst x) | None => c end
  | ISeek t => match robs rev L c with Some _ => CGe t | None => c end
  end.
Definition r_obs (rev : bool) (L : list (bytes * pos)) (c : cut) : bool * option (bytes * pos) :=
  (match robs rev L c with Some _ => true | None => false end, robs rev L c).
Fixpoint rrun (rev : bool) (L : list (bytes * pos)) (c : cut) (ops : list iop) : list (bool * option (bytes * pos)) :=
  match ops with [] => [] | o :: r => let c' := rstep rev L c o in r_obs rev L c' :: rrun rev L c' r end.
(* every Seek target lies at or ahead of the cursor in iteration order *)
Fixpoint legal (rev : bool) (L : list (bytes * pos)) (c : cut) (ops : list iop) : Prop :=
  match ops with
  | [] => True
  | o :: r =>
    (match o with ISeek t => forall x, robs rev L c = Some x -> key_before rev t (fst x) = false | _ => True end) /\
    legal rev L (rstep rev L c o) r
  end.

Section Final.
Variable shf : bytes -> nat.
Variable n : nat.
Hypothesis Hn : (0 < n)%nat.
Variable kind : ikind.
Variable rev : bool.
Variable prefix : bytes.
Variable ix : list (bytes * pos).
Hypothesis Hix : sorted ix.

Let S := snap rev ix.
Let SH := SHn shf n rev ix.
Definition refF : list (bytes * pos) := filter (fun x => has_prefix prefix (fst x)) S.

Let HS := ordered_of_sorted rev ix Hix.
Let DR := DRel rev S SH prefix.

Lemma refF_F : refF = F S prefix.
Proof. reflexivity. Qed.

Let A1 := shards_sub shf n Hn rev ix.
Let A2 := shards_cover shf n Hn rev ix.
Let A3 := shards_disj shf n Hn rev ix.
Let A4 := shards_nodup shf n rev ix.
Let A5 := shards_nonempty shf n Hn rev ix.

Lemma dr_new : DR (di_new kind rev prefix (shards_of shf n rev ix)) CAll.
Proof. exact (drel_new rev S HS SH A1 A2 A3 A4 A5 prefix kind (shards_of shf n rev ix) eq_refl). Qed.

Lemma dr_obs d c : DR d c -> di_obs d = r_obs rev refF c.
Proof.
  intros H. destruct (drel_obs rev S HS SH A1 A2 prefix d c H) as [A B].
  unfold di_obs, r_obs, robs. rewrite A, B. reflexivity.
Qed.

Lemma dr_step d c o : DR d c ->
  (match o with ISeek t => forall x, robs rev refF c = Some x -> key_before rev t (fst x) = false | _ => True end) ->
  DR (di_step d o) (rstep rev refF c o).
Proof.
  intros H Hl. destruct o as [|t|]; cbn [di_step rstep].
  - exact (drel_rewind rev S HS SH A1 A2 A3 A4 A5 prefix d c H).
  - exact (drel_seek rev S HS SH A1 A2 A3 A4 A5 prefix d c t H Hl).
  - exact (drel_next rev S HS SH A1 A2 A3 A4 A5 prefix d c H).
Qed.

Lemma dr_run : forall ops d c, DR d c -> legal rev refF c ops -> di_run d ops = rrun rev refF c ops.
Proof.
  induction ops as [|o ops IH]; intros d c H Hl; [reflexivity|]. cbn [di_run rrun legal] in *. destruct Hl as [Ho Hr].
  pose proof (dr_step d c o H Ho) as H'. rewrite (dr_obs _ _ H'). f_equal. apply IH; assumption.
Qed.

(* C10: every legal call sequence on an iterator over the sharded index behaves like the cursor into
   the ordered, prefix-filtered snapshot - for every assignment of keys to shards, every shard count,
   every kind of shard iterator, both directions, every prefix *)
Theorem iterator_refines ops :
  legal rev refF CAll ops ->
  let d0 := di_new kind rev prefix (shards_of shf n rev ix) in
  di_obs d0 = r_obs rev refF CAll /\ di_run d0 ops = rrun rev refF CAll ops.
Proof. intros Hl. split; [apply dr_obs; apply dr_new|apply dr_run; [apply dr_new|exact Hl]]. Qed.

End Final.

(* ---- what the reference iterator yields ------------------------------------------------------------- *)
Section Reference.
Variable rev : bool.
Variable L : list (bytes * pos).
Hypothesis HL : ordered rev L.

Fixpoint nexts (k : nat) : list iop := match k with O => [] | Datatypes.S k' => INext :: nexts k' end.
Fixpoint cut_after (c : cut) (ops : list iop) : cut :=
  match ops with [] => c | o :: r => cut_after (rstep rev L c o) r end.

(* after k calls of Next a fresh or rewound iterator stands on the k-th element: every element
   once, in order, then exhausted *)
Lemma nexts_skipn : forall k, filter (inc rev (cut_after CAll (nexts k))) L = skipn k L.
Proof.
  assert (Hgen : forall k c j, filter (inc rev c) L = skipn j L -> filter (inc rev (cut_after c (nexts k))) L = skipn (k + j) L).
  { induction k as [|k IH]; intros c j Hc; [exact Hc|]. cbn [nexts cut_after rstep]. unfold robs. rewrite Hc.
    destruct (skipn j L) as [|x r] eqn:Es; cbn [hd_error].
    - assert (Hlen : (length L <= j)%nat).
      { assert (H : length (skipn j L) = 0%nat) by (rewrite Es; reflexivity). rewrite skipn_length in H. lia. }
      rewrite (IH c j ltac:(rewrite Es; exact Hc)). rewrite !skipn_all2 by lia. reflexivity.
    - replace (Datatypes.S k + j)%nat with (k + Datatypes.S j)%nat by lia. apply IH.
      rewrite skipn_S_tl, Es. cbn [tl]. apply (spec_rem_next rev L HL c x r). unfold spec_rem. exact Hc. }
  intros k. rewrite (Hgen k CAll O); [f_equal; lia|]. apply filter_all_true. reflexivity.
Qed.

Theorem traversal k : robs rev L (cut_after CAll (nexts k)) = nth_error L k.
Proof. unfold robs. rewrite nexts_skipn. symmetry. apply nth_error_skipn. Qed.

(* Seek on a fresh or rewound iterator: the first element at or after the target *)
Theorem seek_first t : robs rev L (CGe t) = hd_error (filter (fun x => at_or_after rev t (fst x)) L).
Proof. reflexivity. Qed.

End Reference.
