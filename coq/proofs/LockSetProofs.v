(* LockSetProofs.v — a table that follows the lockset discipline excludes data races (C09):
   threads whose accesses are entries of the table, performed with the listed locks held, never reach
   a state in which two of them are about to perform conflicting accesses - for any number of threads,
   any programs, any schedule. *)
From Coq Require Import List Arith Bool Lia.
From KV Require Import LockSet.
Import ListNotations.

(* ---- lists of threads ---- *)
Lemma nth_set_athr_eq : forall s i t, i < length s -> nth_error (set_athr s i t) i = Some t.
Proof.
  induction s as [|x s IH]; intros i t Hi; cbn [length] in Hi; [lia|].
  destruct i; cbn [set_athr nth_error]; [reflexivity|]. apply IH. lia.
Qed.
Lemma nth_set_athr_neq : forall s i j t, i <> j -> nth_error (set_athr s i t) j = nth_error s j.
Proof.
  induction s as [|x s IH]; intros i j t Hij; [destruct i; reflexivity|].
  destruct i, j; cbn [set_athr nth_error]; try reflexivity; [lia|]. apply IH. lia.
Qed.
Lemma nth_some_lt {A} (s : list A) i x : nth_error s i = Some x -> i < length s.
Proof. intros H. apply nth_error_Some. rewrite H. discriminate. Qed.
Lemma Forall_set_athr (P : athr -> Prop) : forall s i t, Forall P s -> P t -> Forall P (set_athr s i t).
Proof.
  induction s as [|x s IH]; intros i t Hs Ht; destruct i; cbn [set_athr]; auto.
  - constructor; [exact Ht|exact (Forall_inv_tail Hs)].
  - constructor; [exact (Forall_inv Hs)|apply IH; [exact (Forall_inv_tail Hs)|exact Ht]].
Qed.

(* ---- held sets ---- *)
Lemma holds_excl_any h l : holds_excl h l = true -> holds_any h l = true.
Proof.
  unfold holds_excl, holds_any. intros H. apply existsb_exists in H. destruct H as (x & Hx & He).
  apply andb_true_iff in He. apply existsb_exists. exists x. split; [exact Hx|exact (proj1 He)].
Qed.
Lemma in_drop_lock l x : forall h, In x (drop_lock l h) -> In x h.
Proof.
  induction h as [|y h IH]; cbn [drop_lock]; [tauto|]. destruct (Nat.eqb (fst y) l).
  - intros H. right. exact H.
  - intros [H|H]; [left; exact H|right; exact (IH H)].
Qed.
Lemma holds_any_drop l l' h : holds_any (drop_lock l h) l' = true -> holds_any h l' = true.
Proof.
  unfold holds_any. intros H. apply existsb_exists in H. destruct H as (x & Hx & He).
  apply existsb_exists. exists x. split; [exact (in_drop_lock _ _ _ Hx)|exact He].
Qed.
Lemma holds_excl_drop l l' h : holds_excl (drop_lock l h) l' = true -> holds_excl h l' = true.
Proof.
  unfold holds_excl. intros H. apply existsb_exists in H. destruct H as (x & Hx & He).
  apply existsb_exists. exists x. split; [exact (in_drop_lock _ _ _ Hx)|exact He].
Qed.
Lemma holds_any_in h l x : In (l, x) h -> holds_any h l = true.
Proof. intros H. apply existsb_exists. exists (l, x). split; [exact H|cbn; apply Nat.eqb_refl]. Qed.
Lemma holds_excl_in h l : In (l, true) h -> holds_excl h l = true.
Proof. intros H. apply existsb_exists. exists (l, true). split; [exact H|cbn; rewrite Nat.eqb_refl; reflexivity]. Qed.

(* ---- mutual exclusion ---- *)
Definition Mutex (s : list athr) : Prop :=
  forall i j ti tj l, i <> j -> nth_error s i = Some ti -> nth_error s j = Some tj ->
    holds_excl (at_held ti) l = true -> holds_any (at_held tj) l = false.

Lemma can_acquire_excl s l j tj : can_acquire s l true = true -> nth_error s j = Some tj -> holds_any (at_held tj) l = false.
Proof.
  cbn [can_acquire]. intros H Hj. rewrite forallb_forall in H. apply nth_error_In in Hj. apply H in Hj.
  apply negb_true_iff in Hj. exact Hj.
Qed.
Lemma can_acquire_shared s l j tj : can_acquire s l false = true -> nth_error s j = Some tj -> holds_excl (at_held tj) l = false.
Proof.
  cbn [can_acquire]. intros H Hj. rewrite forallb_forall in H. apply nth_error_In in Hj. apply H in Hj.
  apply negb_true_iff in Hj. exact Hj.
Qed.

Lemma holds_any_cons x h l : holds_any (x :: h) l = Nat.eqb (fst x) l || holds_any h l.
Proof. reflexivity. Qed.
Lemma holds_excl_cons x h l : holds_excl (x :: h) l = (Nat.eqb (fst x) l && snd x) || holds_excl h l.
Proof. reflexivity. Qed.

Lemma mutex_step s k s' : Mutex s -> astep s k = Some s' -> Mutex s'.
Proof.
  intros HM Hs. unfold astep in Hs. destruct (nth_error s k) as [[h es]|] eqn:Ek; [|discriminate].
  pose proof (nth_some_lt _ _ _ Ek) as Hk.
  destruct es as [|[l x|l|a] r]; [discriminate| | |].
  - (* acquire *)
    destruct (can_acquire s l x) eqn:Ec; [|discriminate]. injection Hs as <-.
    intros i j ti tj l' Hij Hi Hj He.
    destruct (Nat.eq_dec i k) as [->|Hik].
    + rewrite nth_set_athr_eq in Hi by exact Hk. injection Hi as <-. cbn [at_held] in He.
      rewrite nth_set_athr_neq in Hj by exact Hij.
      rewrite holds_excl_cons in He. cbn [fst snd] in He. apply orb_true_iff in He. destruct He as [He|He].
      * apply andb_true_iff in He. destruct He as [E X]. apply Nat.eqb_eq in E. subst l' x.
        exact (can_acquire_excl _ _ _ _ Ec Hj).
      * apply (HM k j (mkAThr h (LAcq l x :: r)) tj l' Hij Ek Hj He).
    + rewrite nth_set_athr_neq in Hi by (intro E; apply Hik; symmetry; exact E).
      destruct (Nat.eq_dec j k) as [->|Hjk].
      * rewrite nth_set_athr_eq in Hj by exact Hk. injection Hj as <-. cbn [at_held].
        rewrite holds_any_cons. cbn [fst]. apply orb_false_iff. split.
        -- destruct (Nat.eqb l l') eqn:El; [|reflexivity]. apply Nat.eqb_eq in El. subst l'. exfalso.
           destruct x.
           ++ pose proof (can_acquire_excl _ _ _ _ Ec Hi) as Hn. rewrite (holds_excl_any _ _ He) in Hn. discriminate.
           ++ pose proof (can_acquire_shared _ _ _ _ Ec Hi) as Hn. rewrite He in Hn. discriminate.
        -- apply (HM i k ti (mkAThr h (LAcq l x :: r)) l' Hik Hi Ek He).
      * rewrite nth_set_athr_neq in Hj by (intro E; apply Hjk; symmetry; exact E).
        exact (HM i j ti tj l' Hij Hi Hj He).
  - (* release *)
    injection Hs as <-. intros i j ti tj l' Hij Hi Hj He.
    destruct (Nat.eq_dec i k) as [->|Hik].
    + rewrite nth_set_athr_eq in Hi by exact Hk. injection Hi as <-. cbn [at_held] in He.
      rewrite nth_set_athr_neq in Hj by exact Hij. apply holds_excl_drop in He.
      exact (HM k j (mkAThr h (LRel l :: r)) tj l' Hij Ek Hj He).
    + rewrite nth_set_athr_neq in Hi by (intro E; apply Hik; symmetry; exact E).
      destruct (Nat.eq_dec j k) as [->|Hjk].
      * rewrite nth_set_athr_eq in Hj by exact Hk. injection Hj as <-. cbn [at_held].
        destruct (holds_any (drop_lock l h) l') eqn:Ed; [|reflexivity]. apply holds_any_drop in Ed.
        pose proof (HM i k ti (mkAThr h (LRel l :: r)) l' Hik Hi Ek He) as Hn. cbn [at_held] in Hn.
        rewrite Hn in Ed. discriminate.
      * rewrite nth_set_athr_neq in Hj by (intro E; apply Hjk; symmetry; exact E).
        exact (HM i j ti tj l' Hij Hi Hj He).
  - (* an access changes no lock *)
    injection Hs as <-. intros i j ti tj l' Hij Hi Hj He.
    destruct (Nat.eq_dec i k) as [->|Hik].
    + rewrite nth_set_athr_eq in Hi by exact Hk. injection Hi as <-. cbn [at_held] in He.
      rewrite nth_set_athr_neq in Hj by exact Hij.
      exact (HM k j (mkAThr h (Touch a :: r)) tj l' Hij Ek Hj He).
    + rewrite nth_set_athr_neq in Hi by (intro E; apply Hik; symmetry; exact E).
      destruct (Nat.eq_dec j k) as [->|Hjk].
      * rewrite nth_set_athr_eq in Hj by exact Hk. injection Hj as <-. cbn [at_held].
        exact (HM i k ti (mkAThr h (Touch a :: r)) l' Hik Hi Ek He).
      * rewrite nth_set_athr_neq in Hj by (intro E; apply Hjk; symmetry; exact E).
        exact (HM i j ti tj l' Hij Hi Hj He).
Qed.

(* ---- annotation ---- *)
Definition Annot (tbl : list access) (s : list athr) : Prop :=
  Forall (fun t => annotated tbl (at_held t) (at_rest t)) s.

Lemma annot_step tbl s k s' : Annot tbl s -> astep s k = Some s' -> Annot tbl s'.
Proof.
  intros HA Hs. unfold astep in Hs. destruct (nth_error s k) as [[h es]|] eqn:Ek; [|discriminate].
  assert (Ht : annotated tbl h es).
  { unfold Annot in HA. rewrite Forall_forall in HA. apply (HA (mkAThr h es)). eapply nth_error_In. exact Ek. }
  destruct es as [|[l x|l|a] r]; [discriminate| | |].
  - destruct (can_acquire s l x); [|discriminate]. injection Hs as <-. apply Forall_set_athr; [exact HA|exact Ht].
  - injection Hs as <-. apply Forall_set_athr; [exact HA|exact Ht].
  - injection Hs as <-. apply Forall_set_athr; [exact HA|]. cbn [annotated] in Ht. exact (proj2 (proj2 Ht)).
Qed.

(* ---- the discipline excludes races ---- *)
Lemma lockset_ok_pair tbl a b : lockset_ok tbl = true -> In a tbl -> In b tbl -> pair_ok a b = true.
Proof.
  unfold lockset_ok. intros H Ha Hb. rewrite forallb_forall in H. specialize (H a Ha).
  rewrite forallb_forall in H. exact (H b Hb).
Qed.

Lemma conflict_sym a b : conflict a b = conflict b a.
Proof.
  unfold conflict, same_loc, inst_overlap.
  rewrite (Nat.eqb_sym (a_loc a)), (Nat.eqb_sym (a_inst a)), (orb_comm (a_write a)), (andb_comm (a_atomic a)).
  destruct (Nat.eqb (a_inst b) (a_inst a)), (Nat.eqb (a_inst a) 3), (Nat.eqb (a_inst b) 3); reflexivity.
Qed.

Theorem discipline_excludes_race tbl s :
  lockset_ok tbl = true -> Mutex s -> Annot tbl s -> ~ race s.
Proof.
  intros Hok HM HA (i & j & ti & tj & a & b & ri & rj & Hij & Hi & Hj & Hri & Hrj & Hc).
  unfold Annot in HA. rewrite Forall_forall in HA.
  pose proof (HA ti (nth_error_In _ _ Hi)) as Ai. pose proof (HA tj (nth_error_In _ _ Hj)) as Aj.
  rewrite Hri in Ai. rewrite Hrj in Aj. cbn [annotated] in Ai, Aj.
  destruct Ai as (Ia & Ha & _). destruct Aj as (Ib & Hb & _).
  pose proof (lockset_ok_pair tbl a b Hok Ia Ib) as Hp. unfold pair_ok in Hp. rewrite Hc in Hp. cbn [negb orb] in Hp.
  unfold common_lock in Hp. apply existsb_exists in Hp. destruct Hp as ([l xa] & Hla & Hp).
  apply existsb_exists in Hp. destruct Hp as ([l' xb] & Hlb & Hp). cbn [fst snd] in Hp.
  apply andb_true_iff in Hp. destruct Hp as [El Hx]. apply Nat.eqb_eq in El. subst l'.
  apply Ha in Hla. apply Hb in Hlb. apply orb_true_iff in Hx. destruct Hx as [->| ->].
  - pose proof (HM i j ti tj l Hij Hi Hj (holds_excl_in _ _ Hla)) as Hn.
    rewrite (holds_any_in _ _ _ Hlb) in Hn. discriminate.
  - assert (Hji : j <> i) by (intro E; apply Hij; symmetry; exact E).
    pose proof (HM j i tj ti l Hji Hj Hi (holds_excl_in _ _ Hlb)) as Hn.
    rewrite (holds_any_in _ _ _ Hla) in Hn. discriminate.
Qed.

Lemma run_keeps tbl : forall sched s, Mutex s -> Annot tbl s -> Mutex (arun s sched) /\ Annot tbl (arun s sched).
Proof.
  induction sched as [|k sched IH]; intros s HM HA; cbn [arun]; [split; assumption|].
  destruct (astep s k) as [s'|] eqn:Es.
  - apply IH; [exact (mutex_step _ _ _ HM Es)|exact (annot_step _ _ _ _ HA Es)].
  - apply IH; assumption.
Qed.

Lemma mutex_init progs : Mutex (map (mkAThr []) progs).
Proof.
  intros i j ti tj l _ Hi _ He. apply nth_error_In in Hi. apply in_map_iff in Hi. destruct Hi as (p & <- & _).
  cbn in He. discriminate.
Qed.

(* any number of threads, any programs that are annotated faithfully by the table, any schedule *)
Theorem lockset_discipline_excludes_races tbl progs sched :
  lockset_ok tbl = true -> Forall (annotated tbl []) progs -> ~ race (arun (map (mkAThr []) progs) sched).
Proof.
  intros Hok Hp.
  assert (HA : Annot tbl (map (mkAThr []) progs)).
  { unfold Annot. apply Forall_forall. intros t Ht. apply in_map_iff in Ht. destruct Ht as (p & <- & Hin).
    cbn [at_held at_rest]. rewrite Forall_forall in Hp. exact (Hp p Hin). }
  destruct (run_keeps tbl sched _ (mutex_init progs) HA) as [HM' HA'].
  exact (discipline_excludes_race tbl _ Hok HM' HA').
Qed.

(* the discipline is not vacuous: it rejects a write under a shared lock, an unlocked read beside a
   locked write, an atomic operation beside a plain one; it accepts reads under no lock beside each
   other, and a read under the shared lock beside a write under the exclusive one *)
Example lockset_rejects_and_accepts :
  lockset_ok [mkAcc 0 0 true false [(0, false)]] = false /\
  lockset_ok [mkAcc 0 0 true false [(0, true)]; mkAcc 0 0 false false []] = false /\
  lockset_ok [mkAcc 0 0 true true []; mkAcc 0 0 false false []] = false /\
  lockset_ok [mkAcc 0 1 true false [(0, true)]; mkAcc 0 3 false false []] = false /\
  lockset_ok [mkAcc 0 0 false false []; mkAcc 0 0 false false [(1, false)]] = true /\
  lockset_ok [mkAcc 0 0 true false [(0, true)]; mkAcc 0 0 false false [(0, false)]] = true /\
  lockset_ok [mkAcc 0 1 true false [(0, true)]; mkAcc 0 2 false false []] = true /\
  lockset_ok [mkAcc 0 0 true true []; mkAcc 0 0 false true []] = true.
Proof. vm_compute. repeat split; reflexivity. Qed.
