(* RefHeapProofs.v — with copies at the boundary the engine is immune to what the caller does to
   its buffers and to the slices it was given back (C15). *)
From Coq Require Import List NArith Bool Lia Arith.
From KV Require Import Bytes BytesLemmas AMapLemmas RefHeap.
Import ListNotations.
Close Scope N_scope.
Open Scope nat_scope.

Lemma set_cell_length h a b : length (set_cell h a b) = length h.
Proof. revert a. induction h as [|x h IH]; intros a; destruct a; cbn; auto. Qed.
Lemma deref_set_same h a b : a < length h -> deref (set_cell h a b) a = b.
Proof. unfold deref. revert a. induction h as [|x h IH]; intros a H; destruct a; cbn in *; try lia; [reflexivity|apply IH; lia]. Qed.
Lemma deref_set_other h a b a' : a' <> a -> deref (set_cell h a b) a' = deref h a'.
Proof.
  unfold deref. revert a a'. induction h as [|x h IH]; intros a a' H; destruct a; destruct a'; cbn; try reflexivity; try lia.
  apply IH. lia.
Qed.
Lemma deref_alloc_old h b a : a < length h -> deref (h ++ [b]) a = deref h a.
Proof. intros H. unfold deref. apply app_nth1. exact H. Qed.
Lemma deref_alloc_new h b : deref (h ++ [b]) (length h) = b.
Proof. unfold deref. rewrite app_nth2 by lia. rewrite Nat.sub_diag. reflexivity. Qed.

(* the engine's cells are allocated cells other than the caller's buffers and the returned cells *)
Definition WInv (w : world) : Prop :=
  w_kbuf w < length (w_heap w) /\ w_vbuf w < length (w_heap w) /\ w_kbuf w <> w_vbuf w /\
  (forall ka va, In (ka, va) (w_store w) ->
     ka < length (w_heap w) /\ va < length (w_heap w) /\
     ka <> w_kbuf w /\ ka <> w_vbuf w /\ va <> w_kbuf w /\ va <> w_vbuf w /\
     ~ In ka (w_ret w) /\ ~ In va (w_ret w)) /\
  (forall a, In a (w_ret w) -> a < length (w_heap w) /\ a <> w_kbuf w /\ a <> w_vbuf w).

Definition abs_of (h : heap) (st : list (nat * nat)) : list (bytes * bytes) :=
  map (fun e => (deref h (fst e), deref h (snd e))) st.

Lemma abs_ext h h' st : (forall ka va, In (ka, va) st -> deref h' ka = deref h ka /\ deref h' va = deref h va) ->
  abs_of h' st = abs_of h st.
Proof.
  intros H. unfold abs_of. apply map_ext_in. intros [ka va] Hin. cbn [fst snd]. destruct (H ka va Hin) as [A B]. rewrite A, B. reflexivity.
Qed.
Lemma remove_entry_abs h st k : abs_of h (remove_entry h st k) = v_remove (abs_of h st) k.
Proof.
  induction st as [|[ka va] st IH]; [reflexivity|]. cbn [remove_entry abs_of map v_remove fst snd].
  destruct (bytes_eqb (deref h ka) k); [exact IH|]. cbn [abs_of map fst snd]. f_equal. exact IH.
Qed.
Lemma remove_entry_sub h st k e : In e (remove_entry h st k) -> In e st.
Proof.
  induction st as [|[ka va] st IH]; [intros []|]. cbn [remove_entry]. destruct (bytes_eqb (deref h ka) k); [intros H; right; auto|].
  intros [<-|H]; [left; reflexivity|right; auto].
Qed.
Lemma remove_entry_ext h h' st k : (forall ka va, In (ka, va) st -> deref h' ka = deref h ka) ->
  remove_entry h' st k = remove_entry h st k.
Proof.
  induction st as [|[ka va] st IH]; intros H; [reflexivity|]. cbn [remove_entry].
  rewrite (H ka va (or_introl eq_refl)). rewrite IH; [reflexivity|]. intros a b Hin. apply (H a b). right. exact Hin.
Qed.
Lemma find_entry_abs h st k :
  match find_entry h st k with Some (_, va) => v_find (abs_of h st) k = Some (deref h va) /\ exists ka, In (ka, va) st
                            | None => v_find (abs_of h st) k = None end.
Proof.
  induction st as [|[ka va] st IH]; [reflexivity|]. cbn [find_entry abs_of map v_find fst snd].
  destruct (bytes_eqb (deref h ka) k); [split; [reflexivity|exists ka; left; reflexivity]|].
  destruct (find_entry h st k) as [[ka' va']|]; [|exact IH]. destruct IH as [A [kb B]]. split; [exact A|exists kb; right; exact B].
Qed.
Lemma find_entry_ext h h' st k : (forall ka va, In (ka, va) st -> deref h' ka = deref h ka) ->
  find_entry h' st k = find_entry h st k.
Proof.
  induction st as [|[ka va] st IH]; intros H; [reflexivity|]. cbn [find_entry].
  rewrite (H ka va (or_introl eq_refl)). rewrite IH; [reflexivity|]. intros a b Hin. apply (H a b). right. exact Hin.
Qed.

Definition step_ok (w : world) (o : hop) : Prop :=
  let '(w', r) := hstep w o in
  WInv w' /\ abs_of (w_heap w') (w_store w') = fst (vstep (abs_of (w_heap w) (w_store w)) o) /\
  r = snd (vstep (abs_of (w_heap w) (w_store w)) o) /\
  (* cells other than the caller's two buffers keep their content once they exist *)
  (forall a, a < length (w_heap w) -> a <> w_kbuf w -> a <> w_vbuf w -> deref (w_heap w') a = deref (w_heap w) a) /\
  length (w_heap w) <= length (w_heap w') /\ w_kbuf w' = w_kbuf w /\ w_vbuf w' = w_vbuf w /\
  (forall a, In a (w_ret w) -> In a (w_ret w')).

Theorem hstep_ok w o : WInv w -> step_ok w o.
Proof.
  intros (Hk & Hv & Hkv & Hst & Hret). unfold step_ok.
  destruct o as [k v jk jv|k jk|k jk poison]; cbn [hstep vstep fst snd].
  - (* Put *)
    set (h0 := set_cell (set_cell (w_heap w) (w_kbuf w) k) (w_vbuf w) v).
    assert (L0 : length h0 = length (w_heap w)) by (unfold h0; rewrite !set_cell_length; reflexivity).
    assert (Dk : deref h0 (w_kbuf w) = k).
    { unfold h0. rewrite deref_set_other by exact Hkv. apply deref_set_same. exact Hk. }
    assert (Dv : deref h0 (w_vbuf w) = v) by (unfold h0; apply deref_set_same; rewrite set_cell_length; exact Hv).
    assert (D0 : forall a, a <> w_kbuf w -> a <> w_vbuf w -> deref h0 a = deref (w_heap w) a).
    { intros a A B. unfold h0. rewrite !deref_set_other by assumption. reflexivity. }
    unfold alloc. cbn [fst snd]. rewrite Dk.
    set (h1 := h0 ++ [k]). set (ka := length h0).
    assert (Dv1 : deref h1 (w_vbuf w) = v) by (unfold h1; rewrite deref_alloc_old by lia; exact Dv).
    rewrite Dv1. set (h2 := h1 ++ [v]). set (va := length h1).
    assert (L1 : length h1 = S (length h0)) by (unfold h1; rewrite app_length; cbn; lia).
    assert (L2 : length h2 = S (S (length h0))) by (unfold h2; rewrite app_length, L1; cbn; lia).
    assert (Dka : deref h2 ka = k).
    { unfold h2. rewrite deref_alloc_old by (unfold ka; lia). unfold h1, ka. apply deref_alloc_new. }
    assert (Dva : deref h2 va = v) by (unfold h2, va; apply deref_alloc_new).
    assert (D2 : forall a, a < length h0 -> deref h2 a = deref h0 a).
    { intros a A. unfold h2. rewrite deref_alloc_old by lia. unfold h1. apply deref_alloc_old. exact A. }
    rewrite Dka.
    set (h3 := set_cell (set_cell h2 (w_kbuf w) jk) (w_vbuf w) jv).
    assert (L3 : length h3 = length h2) by (unfold h3; rewrite !set_cell_length; reflexivity).
    assert (D3 : forall a, a <> w_kbuf w -> a <> w_vbuf w -> deref h3 a = deref h2 a).
    { intros a A B. unfold h3. rewrite !deref_set_other by assumption. reflexivity. }
    assert (Hold : forall a b, In (a, b) (w_store w) -> deref h2 a = deref (w_heap w) a /\ deref h2 b = deref (w_heap w) b).
    { intros a b Hin. destruct (Hst a b Hin) as (A1 & A2 & A3 & A4 & A5 & A6 & _).
      rewrite !D2 by lia. rewrite !D0 by assumption. auto. }
    assert (Hrem : remove_entry h2 (w_store w) k = remove_entry (w_heap w) (w_store w) k).
    { apply remove_entry_ext. intros a b Hin. apply (Hold a b Hin). }
    rewrite Hrem. cbn [w_heap w_store w_kbuf w_vbuf w_ret].
    split; [|split; [|split; [reflexivity|split; [|split; [lia|split; [reflexivity|split; [reflexivity|auto]]]]]]].
    + (* invariant *)
      unfold WInv. cbn [w_heap w_store w_kbuf w_vbuf w_ret]. split; [lia|]. split; [lia|]. split; [exact Hkv|]. split.
      * intros a b [Heq|Hin].
        -- injection Heq as <- <-. unfold ka, va. repeat split; try lia.
           ++ intros Hr. destruct (Hret _ Hr). lia.
           ++ intros Hr. destruct (Hret _ Hr). lia.
        -- apply remove_entry_sub in Hin. destruct (Hst a b Hin) as (A1 & A2 & A3 & A4 & A5 & A6 & A7 & A8). repeat split; try assumption; lia.
      * intros a Hr. destruct (Hret a Hr) as (A & B & C). repeat split; try assumption; lia.
    + (* the abstraction follows the value-semantic Put *)
      cbn [abs_of map fst snd]. rewrite !D3 by (unfold ka, va; lia). rewrite Dka, Dva. f_equal.
      rewrite <- remove_entry_abs.
      transitivity (abs_of h2 (remove_entry (w_heap w) (w_store w) k)).
      * apply abs_ext. intros a b Hin. apply remove_entry_sub in Hin. destruct (Hst a b Hin) as (A1 & A2 & A3 & A4 & A5 & A6 & _).
        rewrite !D3 by assumption. auto.
      * apply abs_ext. intros a b Hin. apply remove_entry_sub in Hin. apply (Hold a b Hin).
    + intros a A B C. rewrite D3 by assumption. rewrite D2 by lia. apply D0; assumption.
  - (* Delete *)
    set (h0 := set_cell (w_heap w) (w_kbuf w) k).
    assert (L0 : length h0 = length (w_heap w)) by (unfold h0; apply set_cell_length).
    assert (Dk : deref h0 (w_kbuf w) = k) by (unfold h0; apply deref_set_same; exact Hk).
    assert (D0 : forall a, a <> w_kbuf w -> deref h0 a = deref (w_heap w) a) by (intros a A; unfold h0; apply deref_set_other; exact A).
    rewrite Dk. set (h1 := set_cell h0 (w_kbuf w) jk).
    assert (D1 : forall a, a <> w_kbuf w -> deref h1 a = deref h0 a) by (intros a A; unfold h1; apply deref_set_other; exact A).
    assert (Hrem : remove_entry h0 (w_store w) k = remove_entry (w_heap w) (w_store w) k).
    { apply remove_entry_ext. intros a b Hin. destruct (Hst a b Hin) as (_ & _ & A3 & _). apply D0. exact A3. }
    rewrite Hrem. cbn [w_heap w_store w_kbuf w_vbuf w_ret].
    assert (L1 : length h1 = length (w_heap w)) by (unfold h1; rewrite set_cell_length; exact L0).
    split; [|split; [|split; [reflexivity|split; [|split; [lia|split; [reflexivity|split; [reflexivity|auto]]]]]]].
    + unfold WInv. cbn [w_heap w_store w_kbuf w_vbuf w_ret]. split; [lia|]. split; [lia|]. split; [exact Hkv|]. split.
      * intros a b Hin. apply remove_entry_sub in Hin. destruct (Hst a b Hin) as (A1 & A2 & A3 & A4 & A5 & A6 & A7 & A8). repeat split; try assumption; lia.
      * intros a Hr. destruct (Hret a Hr) as (A & B & C). repeat split; try assumption; lia.
    + rewrite <- remove_entry_abs. apply abs_ext. intros a b Hin. apply remove_entry_sub in Hin.
      destruct (Hst a b Hin) as (_ & _ & A3 & _ & A5 & _). rewrite !D1, !D0 by assumption. auto.
    + intros a A B C. rewrite D1, D0 by assumption. reflexivity.
  - (* Get *)
    set (h0 := set_cell (w_heap w) (w_kbuf w) k).
    assert (L0 : length h0 = length (w_heap w)) by (unfold h0; apply set_cell_length).
    assert (Dk : deref h0 (w_kbuf w) = k) by (unfold h0; apply deref_set_same; exact Hk).
    assert (D0 : forall a, a <> w_kbuf w -> deref h0 a = deref (w_heap w) a) by (intros a A; unfold h0; apply deref_set_other; exact A).
    rewrite Dk.
    assert (Hfind : find_entry h0 (w_store w) k = find_entry (w_heap w) (w_store w) k).
    { apply find_entry_ext. intros a b Hin. destruct (Hst a b Hin) as (_ & _ & A3 & _). apply D0. exact A3. }
    rewrite Hfind. pose proof (find_entry_abs (w_heap w) (w_store w) k) as Hf.
    destruct (find_entry (w_heap w) (w_store w) k) as [[ka va]|].
    + destruct Hf as [Hv0 [kb Hin]]. destruct (Hst kb va Hin) as (A1 & A2 & A3 & A4 & A5 & A6 & A7 & A8).
      unfold alloc. cbn [fst snd]. set (h1 := h0 ++ [deref h0 va]). set (ra := length h0).
      assert (L1 : length h1 = S (length h0)) by (unfold h1; rewrite app_length; cbn; lia).
      set (h2 := set_cell (set_cell h1 ra poison) (w_kbuf w) jk).
      assert (D2 : forall a, a < length h0 -> a <> w_kbuf w -> deref h2 a = deref h0 a).
      { intros a A B. unfold h2. rewrite !deref_set_other by (try assumption; unfold ra; lia). unfold h1. apply deref_alloc_old. exact A. }
      cbn [w_heap w_store w_kbuf w_vbuf w_ret].
      split; [|split; [|split; [|split; [|split; [|split; [reflexivity|split; [reflexivity|intros a Ha; right; exact Ha]]]]]]].
      * assert (L2 : length h2 = S (length h0)) by (unfold h2; rewrite !set_cell_length; exact L1).
        unfold WInv. cbn [w_heap w_store w_kbuf w_vbuf w_ret]. split; [lia|]. split; [lia|]. split; [exact Hkv|]. split.
        -- intros a b Hin'. destruct (Hst a b Hin') as (B1 & B2 & B3 & B4 & B5 & B6 & B7 & B8).
           repeat split; try assumption; try lia.
           ++ intros [E|Hr]; [unfold ra in E; lia|contradiction].
           ++ intros [E|Hr]; [unfold ra in E; lia|contradiction].
        -- intros a [<-|Hr]; [unfold ra; repeat split; lia|]. destruct (Hret a Hr) as (A & B & C). repeat split; try assumption; lia.
      * apply abs_ext. intros a b Hin'. destruct (Hst a b Hin') as (B1 & B2 & B3 & _ & B5 & _).
        rewrite !D2 by (try assumption; lia). rewrite !D0 by assumption. auto.
      * rewrite Hv0. f_equal. unfold h1, ra. rewrite deref_alloc_new. apply D0. exact A5.
      * intros a A B C. rewrite D2 by (try assumption; lia). apply D0. exact B.
      * unfold h2. rewrite !set_cell_length. lia.
    + cbn [w_heap w_store w_kbuf w_vbuf w_ret].
      set (h1 := set_cell h0 (w_kbuf w) jk).
      assert (D1 : forall a, a <> w_kbuf w -> deref h1 a = deref h0 a) by (intros a A; unfold h1; apply deref_set_other; exact A).
      assert (L1 : length h1 = length (w_heap w)) by (unfold h1; rewrite set_cell_length; exact L0).
      split; [|split; [|split; [exact (eq_sym Hf)|split; [|split; [lia|split; [reflexivity|split; [reflexivity|auto]]]]]]].
      * unfold WInv. cbn [w_heap w_store w_kbuf w_vbuf w_ret]. split; [lia|]. split; [lia|]. split; [exact Hkv|]. split.
        -- intros a b Hin. destruct (Hst a b Hin) as (A1 & A2 & A3 & A4 & A5 & A6 & A7 & A8). repeat split; try assumption; lia.
        -- intros a Hr. destruct (Hret a Hr) as (A & B & C). repeat split; try assumption; lia.
      * apply abs_ext. intros a b Hin. destruct (Hst a b Hin) as (_ & _ & A3 & _ & A5 & _). rewrite !D1, !D0 by assumption. auto.
      * intros a A B C. rewrite D1, D0 by assumption. reflexivity.
Qed.

Lemma w_init_inv : WInv w_init.
Proof.
  unfold WInv, w_init. cbn. split; [lia|]. split; [lia|]. split; [lia|]. split; [intros ? ? []|intros ? []].
Qed.

(* every run of a hostile caller: the results and the engine's contents are those of the
   value-semantic run in which nothing is ever overwritten *)
Theorem hrun_refines : forall ops w w' rs,
  WInv w -> hrun w ops = (w', rs) ->
  WInv w' /\ rs = snd (vrun (w_abs w) ops) /\ w_abs w' = fst (vrun (w_abs w) ops).
Proof.
  induction ops as [|o ops IH]; intros w w' rs HI H; cbn [hrun vrun] in *.
  - injection H as <- <-. auto.
  - pose proof (hstep_ok w o HI) as Hs. unfold step_ok in Hs. destruct (hstep w o) as [w1 x] eqn:E1.
    destruct Hs as (HI1 & Habs & Hx & _). destruct (hrun w1 ops) as [w2 xs] eqn:E2. injection H as <- <-.
    destruct (IH w1 w2 xs HI1 E2) as (HI2 & Hxs & Habs2).
    unfold w_abs in *. fold (abs_of (w_heap w) (w_store w)) in *. fold (abs_of (w_heap w1) (w_store w1)) in *.
    destruct (vstep (abs_of (w_heap w) (w_store w)) o) as [m1 y] eqn:Ev. cbn [fst snd] in *. subst.
    fold (abs_of (w_heap w2) (w_store w2)).
    destruct (vrun (abs_of (w_heap w1) (w_store w1)) ops) as [m2 ys]. cbn [fst snd] in *. subst. auto.
Qed.

(* a cell that is neither of the caller's two buffers - in particular a slice returned by Get, after
   the caller wrote into it - keeps its content through every later call *)
Theorem hrun_keeps_cells : forall ops w w' rs a,
  WInv w -> hrun w ops = (w', rs) -> a < length (w_heap w) -> a <> w_kbuf w -> a <> w_vbuf w ->
  deref (w_heap w') a = deref (w_heap w) a.
Proof.
  induction ops as [|o ops IH]; intros w w' rs a HI H Ha Hk Hv; cbn [hrun] in H.
  - injection H as <- _. reflexivity.
  - pose proof (hstep_ok w o HI) as Hs. unfold step_ok in Hs. destruct (hstep w o) as [w1 x] eqn:E1.
    destruct Hs as (HI1 & _ & _ & Hkeep & Hlen & Ek & Ev & _). destruct (hrun w1 ops) as [w2 xs] eqn:E2. injection H as <- _.
    rewrite (IH w1 w2 xs a HI1 E2) by (try lia; congruence). apply Hkeep; assumption.
Qed.
