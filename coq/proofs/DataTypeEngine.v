(* DataTypeEngine.v — histories of data-structure commands, restarts, merges and syncs on the engine model
   behave as the abstract types (C19): DataTypeSim (engine -> ordered map, any reachable state) composed
   with DataTypeRefine (ordered map -> abstract types). *)
From Coq Require Import List NArith Lia Bool.
From KV Require Import Bytes GenConsts BytesLemmas Record Engine Script DataType DataTypeRun DataTypeSpec.
From KV Require Import AMapLemmas EngineInv EngineRefine EngineRecover EngineMergeRun DataTypeCodec DataTypeSim DataTypeRefine.
Import ListNotations.
Open Scope N_scope.

(* what a client of the layer does: a command (with the clock readings and the batch id the implementation
   drew), or an operation of the engine underneath that leaves the mapping alone *)
Inductive dop := DCmd (c : cmd) (ver now bid : N) | DEng (o : op).

Definition keeps_map (o : op) : Prop :=
  match o with OpRestart _ | OpMerge _ | OpSync | OpList | OpFold | OpStat | OpGet _ => True | _ => False end.

Definition dstep (s : state) (x : dop) : state * option outcome :=
  match x with
  | DCmd c ver now bid => let '(d', out, _) := run_cmd (fst s) c ver now bid in ((d', snd s), Some out)
  | DEng o => (fst (fst (step s o)), None)
  end.

Fixpoint drun (s : state) (h : list dop) : state * list (option outcome) :=
  match h with
  | [] => (s, [])
  | x :: r => let '(s1, o) := dstep s x in let '(s2, os) := drun s1 r in (s2, o :: os)
  end.

(* the reference: the abstract types; engine operations do nothing *)
Fixpoint arun (A : astate) (h : list dop) : astate * list (option dreply) :=
  match h with
  | [] => (A, [])
  | DCmd c _ now _ :: r => let '(A1, rep) := a_cmd A c now in let '(A2, os) := arun A1 r in (A2, Some rep :: os)
  | DEng _ :: r => let '(A2, os) := arun A r in (A2, None :: os)
  end.

Definition same_reply (o : option outcome) (r : option dreply) : Prop :=
  match o, r with
  | Some (OReply x), Some y => canon x = y
  | None, None => True
  | _, _ => False
  end.

Section Hist.
Variable U : bytes -> Prop.
Variable V : N -> Prop.
Variable ZM : bytes -> Prop.
Variable ZS : bytes -> Prop.
Hypothesis U_nonempty : forall k, U k -> len k <> 0.
Hypothesis V_bound : forall v, V v -> v < 2 ^ 63.
Hypothesis Sep1 : forall k k' v y, U k -> U k' -> V v -> k' <> ikey k v y.
Hypothesis Sep2 : forall k k' v v' y y', U k -> U k' -> V v -> V v' -> ikey k v y = ikey k' v' y' -> k = k'.
Hypothesis ZSep : forall m m' s, ZM m -> ZM m' -> ZS s -> m <> s ++ m' ++ le32 (len m').

(* side conditions of a history: keys from U, versions from V and never repeated (the clock moves on),
   sorted-set members and scores from ZM / ZS, expiry times in range, batch ids non-zero; a Merge that
   succeeds scanned every file *)
Fixpoint dok (s : state) (used : list N) (h : list dop) : Prop :=
  match h with
  | [] => True
  | DCmd c ver now bid :: r =>
    U (cmd_key c) /\ V ver /\ ~ In ver used /\ cmd_ok ZM ZS c /\ bid <> 0 /\
    dok (fst (dstep s (DCmd c ver now bid))) (ver :: used) r
  | DEng o :: r => keeps_map o /\ gop_ok (fst s) o /\ dok (fst (dstep s (DEng o))) used r
  end.

Lemma keeps_map_sstep M o : keeps_map o -> fst (sstep M o) = M.
Proof. destruct o; cbn [keeps_map sstep]; try contradiction; reflexivity. Qed.

Theorem drun_refines : forall h d k M A n used,
  G d k M -> Rel U V ZM ZS n used M A -> n + len h < 2 ^ 63 -> dok (d, k) used h ->
  Forall2 same_reply (snd (drun (d, k) h)) (snd (arun A h)) /\
  exists M' n' used', G (fst (fst (drun (d, k) h))) (snd (fst (drun (d, k) h))) M' /\
                      Rel U V ZM ZS n' used' M' (fst (arun A h)).
Proof.
  induction h as [|x h IH]; intros d k M A n used HG HR Hn Hok; cbn [drun arun].
  - cbn [fst snd]. split; [constructor|]. exists M, n, used. auto.
  - rewrite len_cons in Hn. destruct x as [c ver now bid|o]; cbn [dok] in Hok.
    + destruct Hok as (Hk & Hv & Hfr & Hcok & Hbid & Hrest).
      cbn [dstep fst snd] in *.
      destruct (run_cmd d c ver now bid) as [[d1 out] evs] eqn:Er.
      destruct (run_cmd_G k d M c ver now bid d1 out evs HG Hbid Er) as [HG1 Hout].
      destruct (step_refines U V ZM ZS U_nonempty V_bound Sep1 Sep2 ZSep n used M A c ver now HR Hk Hv Hfr ltac:(lia) Hcok)
        as (r & Hr1 & Hr2 & HR1).
      destruct (a_cmd A c now) as [A1 rep] eqn:Ea. cbn [fst snd] in *.
      specialize (IH d1 k (fst (m_cmd M c ver now)) A1 (n + 1) (ver :: used) HG1 HR1 ltac:(lia) Hrest).
      destruct (drun (d1, k) h) as [s2 os]. destruct (arun A1 h) as [A2 rs]. cbn [fst snd] in *.
      destruct IH as [IH1 IH2]. split; [|exact IH2].
      constructor; [|exact IH1]. cbn [same_reply]. rewrite Hout, Hr1. exact Hr2.
    + destruct Hok as (Hkm & Hgop & Hrest). cbn [dstep fst snd] in *.
      destruct (step (d, k) o) as [[[d1 k1] r] evs] eqn:Es. cbn [fst snd] in *.
      destruct (step_G d k M o d1 k1 r evs HG Hgop Es) as [HG1 _].
      rewrite (keeps_map_sstep M o Hkm) in HG1.
      specialize (IH d1 k1 M A n used HG1 HR ltac:(lia) Hrest).
      destruct (drun (d1, k1) h) as [s2 os]. destruct (arun A h) as [A2 rs]. cbn [fst snd] in *.
      destruct IH as [IH1 IH2]. split; [|exact IH2]. constructor; [exact I|exact IH1].
Qed.

(* from a freshly created database *)
Theorem drun_refines_from_empty c h :
  exists d k evs, db_open c empty_disk = (OpenOk d k, evs) /\
  (len h < 2 ^ 63 -> dok (d, k) [] h ->
   Forall2 same_reply (snd (drun (d, k) h)) (snd (arun (fun _ => None) h))).
Proof.
  destruct (open_empty_G c) as (d & k & evs & Ho & HG). exists d, k, evs. split; [exact Ho|].
  intros Hn Hok.
  exact (proj1 (drun_refines h d k [] (fun _ => None) 0 [] HG (Rel_init U V ZM ZS) ltac:(lia) Hok)).
Qed.
End Hist.

(* a sufficient condition for the separation hypotheses: all user keys have one length *)
Lemma same_length_sep (U : bytes -> Prop) (V : N -> Prop) (L : nat) :
  (forall k, U k -> length k = L) ->
  (forall k k' v y, U k -> U k' -> V v -> k' <> ikey k v y) /\
  (forall k k' v v' y y', U k -> U k' -> V v -> V v' -> ikey k v y = ikey k' v' y' -> k = k').
Proof.
  intros HL. split.
  - intros k k' v y Hk Hk' _ He. apply (f_equal (@length _)) in He. unfold ikey in He.
    rewrite !app_length, length_le64, (HL k Hk), (HL k' Hk') in He. lia.
  - intros k k' v v' y y' Hk Hk' _ _ He. unfold ikey in He.
    apply app_eq_len in He; [exact (proj1 He)|]. rewrite (HL k Hk), (HL k' Hk'). reflexivity.
Qed.
