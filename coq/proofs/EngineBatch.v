(* EngineBatch.v — batches: staging, flushes (several records in one write), Commit. *)
From Coq Require Import ZArith Lia ZifyN ZifyNat ZifyBool Sorting.Sorted.
From KV Require Import Bytes GenConsts Chunk Record Engine Script BytesLemmas AMapLemmas EngineFiles EngineInv.
Open Scope N_scope.

(* ---- several records in one write ------------------------------------------------------- *)
Lemma lookup_app_gen rs out b o :
  lf_lookup (rs ++ out) b o =
    match lf_lookup rs b o with Some x => Some x | None => lf_lookup out b o end.
Proof.
  induction rs as [|[r0 p0] rs IH]; cbn [app lf_lookup]; [reflexivity|].
  destruct ((p_bid p0 =? b) && (p_off p0 =? o)); [reflexivity|exact IH].
Qed.

(* what frame_all produces from writer position sz = bid*BS + bsz *)
Lemma frame_all_spec : forall rs fid bid bsz out bid' bsz',
  bsz < blockSize -> frame_all fid bid bsz rs = (out, bid', bsz') ->
  map fst out = rs /\ bsz' < blockSize /\ bid * blockSize + bsz <= bid' * blockSize + bsz' /\
  (forall r p, In (r, p) out ->
     p_fid p = fid /\ bid * blockSize + bsz <= pstart p /\ pstart p < bid' * blockSize + bsz' /\ p_off p < blockSize /\
     pstart p + p_size p <= bid' * blockSize + bsz' /\ 0 < p_size p) /\
  (forall r p, In (r, p) out -> lf_lookup out (p_bid p) (p_off p) <> None) /\
  (forall i r p, nth_error out i = Some (r, p) -> lf_lookup out (p_bid p) (p_off p) = Some r).
Proof.
  induction rs as [|r0 rs IH]; intros fid bid bsz out bid' bsz' Hwf Hfa; cbn [frame_all] in Hfa.
  - injection Hfa as <- <- <-. split; [reflexivity|]. split; [exact Hwf|]. split; [lia|].
    split; [intros r p []|]. split; [intros r p []|]. intros [|i] r p H; discriminate.
  - destruct (frame fid bid bsz (rec_len r0)) as [[p0 b1] s1] eqn:Hfr.
    destruct (frame_all fid b1 s1 rs) as [[out1 b2] s2] eqn:Hrest.
    injection Hfa as <- <- <-.
    destruct (frame_props _ _ _ _ _ _ _ Hwf (rec_len_pos r0) Hfr) as (Hfid & Hoff & Hge & Hend & Hsz & Hs1).
    destruct (IH fid b1 s1 out1 b2 s2 Hs1 Hrest) as (Hmap & Hs2 & Hmono & Hall & Hsome & Hnth).
    assert (Hskip : forall r p, In (r, p) out1 -> (p_bid p0 =? p_bid p) && (p_off p0 =? p_off p) = false).
    { intros r p Hin. destruct (Hall r p Hin) as (_ & Hlo & _ & Hpo & _).
      destruct ((p_bid p0 =? p_bid p) && (p_off p0 =? p_off p)) eqn:E; [|reflexivity].
      exfalso. unfold pstart in *. assert (p_bid p0 = p_bid p /\ p_off p0 = p_off p) as [E1 E2] by lia.
      rewrite E1, E2 in Hend. lia. }
    split; [cbn [map fst]; rewrite Hmap; reflexivity|].
    split; [exact Hs2|]. split; [lia|]. split; [|split].
    + intros r p [Heq|Hin].
      * injection Heq as <- <-. repeat split; try assumption; lia.
      * destruct (Hall r p Hin) as (H1 & H2 & H3 & H4 & H5 & H6). repeat split; try assumption; lia.
    + intros r p [Heq|Hin]; cbn [lf_lookup].
      * injection Heq as <- <-. rewrite !N.eqb_refl. cbn. discriminate.
      * rewrite (Hskip r p Hin). apply (Hsome r p Hin).
    + intros [|i] r p Hn; cbn [nth_error] in Hn; cbn [lf_lookup].
      * injection Hn as <- <-. rewrite !N.eqb_refl. reflexivity.
      * assert (Hin : In (r, p) out1) by (eapply nth_error_In; eassumption).
        rewrite (Hskip r p Hin). eapply Hnth. eassumption.
Qed.

Lemma lf_append_all_spec io nm fid f rs f' ps evs :
  wf_lfile f -> lf_append_all io nm fid f rs = (f', ps, evs) ->
  exists out, lf_recs f' = lf_recs f ++ out /\ map fst out = rs /\ map snd out = ps /\ wf_lfile f' /\
    (forall r p, In (r, p) out -> p_fid p = fid /\ lf_lookup (lf_recs f) (p_bid p) (p_off p) = None) /\
    (forall i r p, nth_error out i = Some (r, p) -> lf_lookup out (p_bid p) (p_off p) = Some r).
Proof.
  intros Hwf Happ. unfold lf_append_all in Happ.
  destruct (frame_all fid (lf_bid f) (lf_bsz f) rs) as [[out b'] s'] eqn:Hfa.
  set (n := b' * blockSize + s' - lf_size f) in *.
  destruct (h_write_spec io nm f out n) as [Hrecs Hsize].
  destruct (h_write io nm f out n) as [f1 ev1]. cbn [fst] in *.
  injection Happ as <- <- <-.
  assert (Hbsz : lf_bsz f < blockSize) by (unfold lf_bsz; rewrite ChunkProofs.blockSize_val; lia).
  assert (Hcur : lf_bid f * blockSize + lf_bsz f = lf_size f)
    by (unfold lf_bid, lf_bsz; rewrite ChunkProofs.blockSize_val; lia).
  destruct (frame_all_spec _ _ _ _ _ _ _ Hbsz Hfa) as (Hmap & Hs' & Hmono & Hall & _ & Hnth).
  exists out. split; [exact Hrecs|]. split; [exact Hmap|]. split; [reflexivity|]. split; [|split].
  - intros r p Hin. rewrite Hrecs in Hin. rewrite Hsize. apply in_app_or in Hin. destruct Hin as [Hin|Hin].
    + destruct (Hwf r p Hin) as (H1 & H2 & H3 & H4). repeat split; try assumption; unfold n; lia.
    + destruct (Hall r p Hin) as (_ & H1 & H2 & H3 & H4 & H5). repeat split; try assumption; unfold n; lia.
  - intros r p Hin. destruct (Hall r p Hin) as (H0 & H1 & H2 & H3 & _). split; [exact H0|].
    apply (lookup_none_beyond _ (lf_size f)); [|unfold pstart in H1; lia|exact H3].
    intros r1 p1 Hin1. destruct (Hwf r1 p1 Hin1) as (A & B & _). auto.
  - exact Hnth.
Qed.

(* ---- applying a list of records to the specification map ---------------------------------- *)
Lemma rec_apply_sorted m r : sorted m -> sorted (rec_apply m r).
Proof. intros H. unfold rec_apply. destruct (r_type r =? rt_Deleted); [apply amap_del_sorted|apply amap_put_sorted]; exact H. Qed.
Lemma s_apply_recs_sorted rs : forall m, sorted m -> sorted (s_apply_recs m rs).
Proof. induction rs as [|r rs IH]; intros m H; cbn [s_apply_recs fold_left]; [exact H|].
  apply IH. apply rec_apply_sorted. exact H. Qed.
Lemma s_apply_recs_app m a b : s_apply_recs m (a ++ b) = s_apply_recs (s_apply_recs m a) b.
Proof. unfold s_apply_recs. apply fold_left_app. Qed.

Lemma rec_apply_get m r k : sorted m ->
  amap_get (rec_apply m r) k =
    if bytes_eqb k (r_key r) then (if r_type r =? rt_Deleted then None else Some (r_value r))
    else amap_get m k.
Proof.
  intros Hs. unfold rec_apply. destruct (r_type r =? rt_Deleted).
  - rewrite amap_get_del by exact Hs. reflexivity.
  - rewrite amap_get_put. reflexivity.
Qed.

Lemma R_sorted d m : Inv d -> R d m -> sorted m.
Proof. intros [_ [Hs _]] HR. eapply amap_rel_sorted; eassumption. Qed.

(* ---- one index update of flushStaged / updateIndex ----------------------------------------- *)
Definition index_step (d : db) (r : record) (p : pos) : db :=
  let d1 := if r_type r =? rt_Deleted then
              let '(ix, old) := idx_del (d_index d) (r_key r) in
              add_reclaim (add_reclaim (set_index d ix) (p_size p)) (opt_size old)
            else
              let '(ix, old) := idx_put (d_index d) (r_key r) p in
              add_reclaim (set_index d ix) (opt_size old) in
  set_counters d1 (d_bytes_write d1) (d_total d1 + p_size p) (d_reclaim d1).

Lemma apply_staged_cons d r p rest : apply_staged d ((r, p) :: rest) = apply_staged (index_step d r p) rest.
Proof. reflexivity. Qed.

Lemma index_step_files d r p :
  d_active_id (index_step d r p) = d_active_id d /\ d_active (index_step d r p) = d_active d /\
  d_older (index_step d r p) = d_older d /\ d_cfg (index_step d r p) = d_cfg d.
Proof.
  unfold index_step. destruct (r_type r =? rt_Deleted).
  - destruct (idx_del (d_index d) (r_key r)) as [ix old]. auto.
  - destruct (idx_put (d_index d) (r_key r) p) as [ix old]. auto.
Qed.
Lemma index_step_index d r p :
  d_index (index_step d r p) =
    if r_type r =? rt_Deleted then fst (amap_del (d_index d) (r_key r))
    else fst (amap_put (d_index d) (r_key r) p).
Proof.
  unfold index_step, idx_del, idx_put. destruct (r_type r =? rt_Deleted).
  - destruct (amap_del (d_index d) (r_key r)) as [ix old]. reflexivity.
  - destruct (amap_put (d_index d) (r_key r) p) as [ix old]. reflexivity.
Qed.

Lemma index_step_spec d m r p r' :
  Inv d -> R d m -> rec_at d p = Some r' -> r_key r' = r_key r -> r_value r' = r_value r -> r_type r' = r_type r ->
  Inv (index_step d r p) /\ R (index_step d r p) (rec_apply m r) /\
  (forall q, rec_at (index_step d r p) q = rec_at d q).
Proof.
  intros [HF [Hsorted Hres]] HR Hp Hk Hv Hty.
  destruct (index_step_files d r p) as (F1 & F2 & F3 & F4).
  assert (Hrec : forall q, rec_at (index_step d r p) q = rec_at d q) by (apply rec_at_ext; assumption).
  assert (HF' : InvF (index_step d r p)) by (unfold InvF; rewrite F1, F2, F3; exact HF).
  split; [|split; [|exact Hrec]].
  - split; [exact HF'|]. split; rewrite index_step_index.
    + destruct (r_type r =? rt_Deleted); [apply amap_del_sorted|apply amap_put_sorted]; exact Hsorted.
    + intros k q Hin. rewrite Hrec. destruct (r_type r =? rt_Deleted) eqn:Ety.
      * apply in_amap_del in Hin. apply Hres. exact Hin.
      * destruct (in_amap_put _ _ _ _ Hin) as [Heq|Hold]; [|apply Hres; exact Hold].
        injection Heq as -> ->. exists r'. rewrite Hty. auto.
  - unfold R. rewrite index_step_index. unfold rec_apply.
    assert (HR' : amap_rel (fun q v => val_at (index_step d r p) q = Some v) (d_index d) m).
    { eapply amap_rel_impl; [|exact HR]. intros q x Hq. unfold val_at in *. rewrite Hrec. exact Hq. }
    destruct (r_type r =? rt_Deleted) eqn:Ety.
    + apply amap_rel_del. exact HR'.
    + apply amap_rel_put; [exact HR'|]. unfold val_at. rewrite Hrec, Hp, Hty, Ety, Hv. reflexivity.
Qed.

Lemma apply_staged_spec : forall rps d m,
  Inv d -> R d m ->
  (forall r p, In (r, p) rps -> exists r', rec_at d p = Some r' /\ r_key r' = r_key r /\ r_value r' = r_value r /\ r_type r' = r_type r) ->
  Inv (apply_staged d rps) /\ R (apply_staged d rps) (s_apply_recs m (map fst rps)) /\
  (forall q, rec_at (apply_staged d rps) q = rec_at d q) /\ d_cfg (apply_staged d rps) = d_cfg d.
Proof.
  induction rps as [|[r p] rps IH]; intros d m HI HR Hall.
  - cbn [apply_staged map s_apply_recs fold_left]. auto.
  - rewrite apply_staged_cons. cbn [map fst s_apply_recs fold_left].
    destruct (Hall r p (or_introl eq_refl)) as (r' & Hp & Hk & Hv & Hty).
    destruct (index_step_spec d m r p r' HI HR Hp Hk Hv Hty) as (HI1 & HR1 & Hrec1).
    destruct (IH (index_step d r p) (rec_apply m r) HI1 HR1) as (HI2 & HR2 & Hrec2 & Hcfg2).
    + intros r0 p0 Hin. destruct (Hall r0 p0 (or_intror Hin)) as (r0' & H1 & H2). exists r0'. rewrite Hrec1. auto.
    + split; [exact HI2|]. split; [exact HR2|]. split.
      * intros q. rewrite Hrec2. apply Hrec1.
      * rewrite Hcfg2. apply (index_step_files d r p).
Qed.

Lemma apply_staged_files : forall l d,
  d_active_id (apply_staged d l) = d_active_id d /\ d_active (apply_staged d l) = d_active d /\
  d_older (apply_staged d l) = d_older d.
Proof.
  induction l as [|[r p] l IH]; intros d; [cbn; auto|]. rewrite apply_staged_cons.
  destruct (IH (index_step d r p)) as (A & B & C). destruct (index_step_files d r p) as (F1 & F2 & F3 & _).
  rewrite A, B, C. auto.
Qed.

(* tagging the staged records with the batch id does not change what they do *)
Definition tag (id : N) (r : record) : record := mkRec (r_type r) (r_key r) (r_value r) id.
Lemma s_apply_recs_tag id rs : forall m, s_apply_recs m (map (tag id) rs) = s_apply_recs m rs.
Proof. induction rs as [|r rs IH]; intros m; cbn [map s_apply_recs fold_left]; [reflexivity|].
  change (fold_left rec_apply (map (tag id) rs) (rec_apply m (tag id r))) with (s_apply_recs (rec_apply m (tag id r)) (map (tag id) rs)).
  rewrite IH. reflexivity. Qed.

Lemma nth_error_combine_fst {A B} (l : list (A * B)) : combine (map fst l) (map snd l) = l.
Proof. induction l as [|[a b] l IH]; cbn; [reflexivity|]. rewrite IH. reflexivity. Qed.

(* flushStaged *)
Theorem batch_flush_spec d m b d' b' evs :
  Inv d -> R d m -> batch_flush d b = (d', b', evs) ->
  Inv d' /\ R d' (s_apply_recs m (b_staged b)) /\ d_cfg d' = d_cfg d /\
  b' = mkBatch [] 0 (b_committed b) (b_sync b) (b_id b).
Proof.
  intros HI HR Hfl. unfold batch_flush in Hfl.
  set (sz := lf_size (d_active d)) in *.
  destruct (if (0 <? sz) && (c_fsize (d_cfg d) <? sz + b_cached b + maxFinRecord) then db_rotate d else (d, []))
    as [d1 ev1] eqn:Hrot.
  assert (H1 : InvF d1 /\ same_recs d d1 /\ d_cfg d1 = d_cfg d).
  { destruct ((0 <? sz) && (c_fsize (d_cfg d) <? sz + b_cached b + maxFinRecord)).
    - destruct (db_rotate_spec d d1 ev1 (proj1 HI) Hrot) as (A & B & C & D & _). split; [exact A|]. split; [split; assumption|exact D].
    - injection Hrot as <- <-. split; [exact (proj1 HI)|]. split; [apply same_recs_refl|reflexivity]. }
  destruct H1 as (HF1 & Hsame1 & Hcfg1).
  assert (HI1 : Inv d1) by (eapply Inv_same; eassumption).
  assert (HR1 : R d1 m) by (eapply R_same; eassumption).
  fold (tag (b_id b)) in Hfl.
  set (tagged := map (tag (b_id b)) (b_staged b)) in *.
  destruct (lf_append_all (io_of d1) (FData (d_active_id d1)) (d_active_id d1) (d_active d1) tagged)
    as [[a ps] ev2] eqn:Hla.
  destruct HF1 as [Hact1 Hold1].
  destruct (lf_append_all_spec _ _ _ _ _ _ _ _ Hact1 Hla) as (out & Hrecs & Hmapf & Hmaps & Hwfa & Hfresh & Hnth).
  destruct (if b_sync b then h_sync (FData (d_active_id d1)) a else (a, [])) as [a' ev3] eqn:Hsy.
  assert (Ha' : lf_recs a' = lf_recs a /\ lf_size a' = lf_size a).
  { destruct (b_sync b).
    - pose proof (h_sync_same (FData (d_active_id d1)) a) as H. rewrite Hsy in H. exact H.
    - injection Hsy as <- <-. auto. }
  destruct Ha' as [Ha'1 Ha'2].
  injection Hfl as <- <- <-.
  set (d2 := set_active d1 (d_active_id d1) a').
  assert (Hrat : forall q, rec_at d2 q = if p_fid q =? d_active_id d1
                                         then lf_lookup (lf_recs (d_active d1) ++ out) (p_bid q) (p_off q)
                                         else rec_at d1 q).
  { intros q. unfold rec_at, file_of, d2. cbn [set_active d_active d_older d_active_id].
    destruct (p_fid q =? d_active_id d1); [rewrite Ha'1, Hrecs|]; reflexivity. }
  assert (Hext : extends d1 d2).
  { intros q x Hq. rewrite Hrat. destruct (p_fid q =? d_active_id d1) eqn:E; [|exact Hq].
    unfold rec_at, file_of in Hq. rewrite E in Hq. rewrite lookup_app_gen, Hq. reflexivity. }
  assert (HF2 : InvF d2).
  { split; unfold d2; cbn [set_active d_active d_older d_active_id]; [|exact Hold1].
    intros r p Hin. rewrite Ha'1 in Hin. rewrite Ha'2. apply (Hwfa r p). exact Hin. }
  assert (HI2 : Inv d2).
  { split; [exact HF2|]. destruct HI1 as [_ [Hs Hr]]. split; [exact Hs|].
    intros k p Hin. destruct (Hr k p Hin) as (r & Hrp & Hk). exists r. split; [apply Hext; exact Hrp|exact Hk]. }
  assert (HR2 : R d2 m) by (eapply R_extends; [exact Hext|reflexivity|exact HR1]).
  assert (Hcomb : combine tagged ps = out) by (rewrite <- Hmapf, <- Hmaps; apply nth_error_combine_fst).
  rewrite Hcomb.
  destruct (apply_staged_spec out d2 m HI2 HR2) as (HI3 & HR3 & _ & Hcfg3).
  - intros r p Hin. exists r. destruct (In_nth_error _ _ Hin) as [i Hi].
    destruct (Hfresh r p Hin) as [Hfid Hnone].
    split; [|auto]. rewrite Hrat, Hfid, N.eqb_refl, lookup_app_gen, Hnone. eapply Hnth. exact Hi.
  - rewrite Hmapf in HR3. unfold tagged in HR3. rewrite s_apply_recs_tag in HR3.
    split; [exact HI3|]. split; [exact HR3|]. split; [|reflexivity].
    rewrite Hcfg3. exact Hcfg1.
Qed.

Lemma batch_flush_rotate_spec d m b d' b' evs :
  Inv d -> R d m -> batch_flush_rotate d b = (d', b', evs) ->
  Inv d' /\ R d' (s_apply_recs m (b_staged b)) /\ d_cfg d' = d_cfg d /\
  b' = mkBatch [] 0 (b_committed b) (b_sync b) (b_id b).
Proof.
  intros HI HR H. unfold batch_flush_rotate in H.
  destruct (batch_flush d b) as [[d1 b1] ev1] eqn:Hfl.
  destruct (db_rotate d1) as [d2 ev2] eqn:Hrot. injection H as <- <- <-.
  destruct (batch_flush_spec _ _ _ _ _ _ HI HR Hfl) as (HI1 & HR1 & Hc1 & Hb1).
  destruct (db_rotate_spec d1 d2 ev2 (proj1 HI1) Hrot) as (A & B & C & D & _).
  assert (Hs : same_recs d1 d2) by (split; assumption).
  split; [eapply Inv_same; eassumption|]. split; [eapply R_same; eassumption|].
  split; [congruence|exact Hb1].
Qed.

(* Commit *)
Theorem batch_commit_spec d m b d' b' e evs :
  Inv d -> R d m -> b_committed b = false -> batch_commit d b = (d', b', e, evs) ->
  Inv d' /\ R d' (s_apply_recs m (b_staged b)) /\ e = None /\ b_committed b' = true /\ d_cfg d' = d_cfg d.
Proof.
  intros HI HR Hnc Hc. unfold batch_commit in Hc. rewrite Hnc in Hc.
  destruct (b_staged b) as [|r0 rs] eqn:Est.
  - injection Hc as <- <- <- <-. cbn [s_apply_recs fold_left b_committed]. auto.
  - set (bc := mkBatch (r0 :: rs) (b_cached b) true (b_sync b) (b_id b)) in *.
    destruct (batch_flush d bc) as [[d1 b1] ev1] eqn:Hfl.
    destruct (batch_flush_spec _ _ _ _ _ _ HI HR Hfl) as (HI1 & HR1 & Hc1 & Hb1).
    cbn [bc b_staged] in HR1.
    set (seal := mkRec rt_BatchFinished (dec_digits (b_id b)) [] (b_id b)) in *.
    destruct (lf_append (io_of d1) (FData (d_active_id d1)) (d_active_id d1) (d_active d1) seal) as [[a p] ev2] eqn:Hla.
    destruct HI1 as [[Hact1 Hold1] HII1].
    destruct (lf_append_spec _ _ _ _ _ _ _ _ Hact1 Hla) as (Hwfa & Hrecs & Hfid & Hge & Hoff & Hsz & Hpsz & Hnone).
    destruct (if b_sync b then h_sync (FData (d_active_id d1)) a else (a, [])) as [a' ev3] eqn:Hsy.
    assert (Ha' : lf_recs a' = lf_recs a /\ lf_size a' = lf_size a).
    { destruct (b_sync b).
      - pose proof (h_sync_same (FData (d_active_id d1)) a) as H. rewrite Hsy in H. exact H.
      - injection Hsy as <- <-. auto. }
    destruct Ha' as [Ha'1 Ha'2].
    injection Hc as <- <- <- <-.
    set (d2 := set_active d1 (d_active_id d1) a').
    assert (Hext : extends d1 d2).
    { intros q x Hq. unfold rec_at, file_of, d2 in *. cbn [set_active d_active d_older d_active_id].
      destruct (p_fid q =? d_active_id d1); [|exact Hq]. rewrite Ha'1, Hrecs.
      apply lookup_after_append; assumption. }
    assert (HF2 : InvF d2).
    { split; unfold d2; cbn [set_active d_active d_older d_active_id]; [|exact Hold1].
      intros r q Hin. rewrite Ha'1 in Hin. rewrite Ha'2. apply (Hwfa r q). exact Hin. }
    split; [|split; [eapply R_extends; [exact Hext|reflexivity|exact HR1]|]].
    + split; [exact HF2|]. destruct HII1 as [Hs Hr]. split; [exact Hs|].
      intros k q Hin. destruct (Hr k q Hin) as (r & Hrq & Hk). exists r. split; [apply Hext; exact Hrq|exact Hk].
    + rewrite Hb1. cbn [bc b_committed]. auto.
Qed.

(* ---- the batch's view while staging --------------------------------------------------------- *)
Definition rec_view (r : record) : option bytes := if r_type r =? rt_Deleted then None else Some (r_value r).
Definition staged_view (st : list record) (md : smap) (k : bytes) : option bytes :=
  match staged_find st k with Some r => rec_view r | None => amap_get md k end.

Lemma staged_find_in st k r : staged_find st k = Some r -> In r st /\ r_key r = k.
Proof.
  induction st as [|r0 st IH]; cbn [staged_find]; [discriminate|].
  destruct (bytes_eqb (r_key r0) k) eqn:E.
  - intros [= ->]. apply bytes_eqb_eq in E. split; [left; reflexivity|exact E].
  - intros H. destruct (IH H). split; [right; assumption|assumption].
Qed.
Lemma staged_find_none st k : staged_find st k = None -> ~ In k (map r_key st).
Proof.
  induction st as [|r0 st IH]; cbn [staged_find map]; [intros _ []|].
  destruct (bytes_eqb (r_key r0) k) eqn:E; [discriminate|].
  intros H [Heq|Hin]; [apply bytes_eqb_neq in E; contradiction|exact (IH H Hin)].
Qed.
Lemma staged_find_notin st k : ~ In k (map r_key st) -> staged_find st k = None.
Proof.
  induction st as [|r0 st IH]; cbn [staged_find map]; [reflexivity|].
  intros H. destruct (bytes_eqb (r_key r0) k) eqn:E.
  - apply bytes_eqb_eq in E. exfalso. apply H. left. exact E.
  - apply IH. intros Hin. apply H. right. exact Hin.
Qed.
Lemma staged_find_app st r k :
  staged_find (st ++ [r]) k =
    match staged_find st k with Some x => Some x | None => if bytes_eqb (r_key r) k then Some r else None end.
Proof.
  induction st as [|r0 st IH]; cbn [app staged_find]; [reflexivity|].
  destruct (bytes_eqb (r_key r0) k); [reflexivity|exact IH].
Qed.
Lemma staged_update_keys st k f : (forall r, r_key (f r) = r_key r) ->
  map r_key (staged_update st k f) = map r_key st.
Proof.
  intros Hf. induction st as [|r0 st IH]; cbn [staged_update map]; [reflexivity|].
  destruct (bytes_eqb (r_key r0) k); cbn [map]; [rewrite Hf|rewrite IH]; reflexivity.
Qed.
Lemma staged_find_update st k f k' : (forall r, r_key (f r) = r_key r) ->
  staged_find (staged_update st k f) k' =
    if bytes_eqb k' k then option_map f (staged_find st k) else staged_find st k'.
Proof.
  intros Hf. induction st as [|r0 st IH]; cbn [staged_update staged_find].
  - destruct (bytes_eqb k' k); reflexivity.
  - destruct (bytes_eqb (r_key r0) k) eqn:E.
    + cbn [staged_find]. rewrite Hf. pose proof (proj1 (bytes_eqb_eq _ _) E) as Ek.
      destruct (bytes_eqb k' k) eqn:E2.
      * apply bytes_eqb_eq in E2. subst k'. rewrite E. reflexivity.
      * rewrite Ek. rewrite bytes_eqb_sym, E2. reflexivity.
    + cbn [staged_find]. destruct (bytes_eqb (r_key r0) k') eqn:E3.
      * destruct (bytes_eqb k' k) eqn:E2; [|reflexivity].
        apply bytes_eqb_eq in E2. apply bytes_eqb_eq in E3. apply bytes_eqb_neq in E. congruence.
      * exact IH.
Qed.

(* applying the staged records (distinct keys) gives exactly the staged view *)
Lemma apply_view : forall st md k, sorted md -> NoDup (map r_key st) ->
  amap_get (s_apply_recs md st) k = staged_view st md k.
Proof.
  induction st as [|r st IH]; intros md k Hs Hnd; cbn [s_apply_recs fold_left]; [reflexivity|].
  change (fold_left rec_apply st (rec_apply md r)) with (s_apply_recs (rec_apply md r) st).
  cbn [map] in Hnd. inversion Hnd as [|x l Hnotin Hnd']; subst.
  rewrite IH by (try apply rec_apply_sorted; assumption).
  unfold staged_view. cbn [staged_find].
  destruct (bytes_eqb (r_key r) k) eqn:E.
  - apply bytes_eqb_eq in E. subst k. rewrite (staged_find_notin st (r_key r) Hnotin).
    rewrite rec_apply_get by exact Hs. rewrite bytes_eqb_refl. reflexivity.
  - destruct (staged_find st k); [reflexivity|].
    rewrite rec_apply_get by exact Hs. rewrite bytes_eqb_sym, E. reflexivity.
Qed.

Definition BRel (d : db) (b : batch) (mcur : smap) : Prop :=
  exists md, R d md /\ sorted mcur /\ NoDup (map r_key (b_staged b)) /\
             (forall k, amap_get mcur k = staged_view (b_staged b) md k) /\ b_committed b = false.

Lemma BRel_start d m sync id : Inv d -> R d m -> BRel d (new_batch sync id) m.
Proof. intros HI HR. exists m. split; [exact HR|]. split; [eapply R_sorted; eassumption|].
  split; [constructor|]. split; [reflexivity|reflexivity]. Qed.

(* at Commit the installed map is the batch's view *)
Lemma BRel_flush d b mcur md : Inv d -> R d md -> sorted mcur -> NoDup (map r_key (b_staged b)) ->
  (forall k, amap_get mcur k = staged_view (b_staged b) md k) ->
  s_apply_recs md (b_staged b) = mcur.
Proof.
  intros HI HR Hs Hnd Hv. apply sorted_ext.
  - apply s_apply_recs_sorted. eapply R_sorted; eassumption.
  - exact Hs.
  - intros k. rewrite Hv. apply apply_view; [eapply R_sorted; eassumption|exact Hnd].
Qed.

Theorem batch_commit_view d b mcur d' b' e evs :
  Inv d -> BRel d b mcur -> batch_commit d b = (d', b', e, evs) ->
  Inv d' /\ R d' mcur /\ e = None /\ d_cfg d' = d_cfg d.
Proof.
  intros HI (md & HR & Hs & Hnd & Hv & Hnc) Hc.
  destruct (batch_commit_spec _ _ _ _ _ _ _ HI HR Hnc Hc) as (HI' & HR' & He & _ & Hcfg).
  rewrite (BRel_flush d b mcur md HI HR Hs Hnd Hv) in HR'. auto.
Qed.

Lemma NoDup_app_single {A} (l : list A) x : NoDup l -> ~ In x l -> NoDup (l ++ [x]).
Proof.
  induction l as [|y l IH]; intros Hnd Hnotin; cbn [app].
  - constructor; [intros []|constructor].
  - inversion Hnd; subst. constructor.
    + intros Hin. apply in_app_or in Hin. destruct Hin as [Hin|[Heq|[]]]; [contradiction|].
      subst. apply Hnotin. left. reflexivity.
    + apply IH; [assumption|]. intros Hin. apply Hnotin. right. exact Hin.
Qed.

(* ---- Batch.Put / Delete / Get --------------------------------------------------------------- *)
Lemma rt_normal_not_deleted : (rt_Normal =? rt_Deleted) = false. Proof. reflexivity. Qed.
Lemma rt_deleted_deleted : (rt_Deleted =? rt_Deleted) = true. Proof. reflexivity. Qed.

(* the view of a single-record staging area over the map md *)
Lemma BRel_single d b0 md r mnew :
  Inv d -> R d md -> sorted mnew ->
  (forall k', amap_get mnew k' = if bytes_eqb (r_key r) k' then rec_view r else amap_get md k') ->
  b_committed b0 = false ->
  BRel d (with_staged b0 [r] (b_cached b0 + 0)) mnew.
Proof.
  intros HI HR Hs Hv Hnc. exists md. split; [exact HR|]. split; [exact Hs|].
  split; [cbn; constructor; [intros []|constructor]|]. split; [|exact Hnc].
  intros k'. rewrite Hv. unfold staged_view. cbn [with_staged b_staged staged_find].
  destruct (bytes_eqb (r_key r) k'); reflexivity.
Qed.

Lemma flush_then_stage d b mcur r d1 b1 ev1 c mnew :
  Inv d -> BRel d b mcur -> batch_flush_rotate d b = (d1, b1, ev1) ->
  sorted mnew ->
  (forall k', amap_get mnew k' = if bytes_eqb (r_key r) k' then rec_view r else amap_get mcur k') ->
  Inv d1 /\ BRel d1 (with_staged b1 (b_staged b1 ++ [r]) c) mnew /\ d_cfg d1 = d_cfg d.
Proof.
  intros HI (md & HR & Hs & Hnd & Hv & Hnc) Hfl Hsn Hvn.
  destruct (batch_flush_rotate_spec _ _ _ _ _ _ HI HR Hfl) as (HI1 & HR1 & Hc1 & Hb1).
  rewrite (BRel_flush d b mcur md HI HR Hs Hnd Hv) in HR1.
  split; [exact HI1|]. split; [|exact Hc1].
  subst b1. cbn [b_staged app with_staged b_committed b_sync b_id].
  exists mcur. split; [exact HR1|]. split; [exact Hsn|].
  split; [cbn; constructor; [intros []|constructor]|]. split; [|exact Hnc].
  intros k'. rewrite Hvn. unfold staged_view. cbn [with_staged b_staged staged_find app].
  destruct (bytes_eqb (r_key r) k'); reflexivity.
Qed.

Theorem batch_put_spec d b mcur k v d' b' e evs :
  Inv d -> BRel d b mcur -> batch_put d b k v = (d', b', e, evs) ->
  Inv d' /\ e = snd (s_put mcur k v) /\ BRel d' b' (fst (s_put mcur k v)) /\ d_cfg d' = d_cfg d.
Proof.
  intros HI HB Hput. unfold batch_put in Hput. unfold s_put.
  destruct (len k =? 0) eqn:Ek.
  - injection Hput as <- <- <- <-. cbn [fst snd]. auto.
  - destruct HB as (md & HR & Hs & Hnd & Hv & Hnc). rewrite Hnc in Hput. cbn [fst snd].
    assert (HB : BRel d b mcur) by (exists md; auto).
    set (new := mkRec rt_Normal k v 0) in *.
    assert (Hsn : sorted (fst (amap_put mcur k v))) by (apply amap_put_sorted; exact Hs).
    assert (Hvn : forall k', amap_get (fst (amap_put mcur k v)) k'
                             = if bytes_eqb (r_key new) k' then rec_view new else amap_get mcur k').
    { intros k'. rewrite amap_get_put. unfold rec_view, new. cbn [r_key r_type r_value].
      rewrite bytes_eqb_sym, rt_normal_not_deleted. reflexivity. }
    destruct (staged_find (b_staged b) k) as [r|] eqn:Ef.
    + set (old := disk_size_estimate (len (r_key r)) (len (r_value r))) in *.
      set (nw := disk_size_estimate (len k) (len v)) in *.
      destruct (c_fsize (d_cfg d) <? b_cached b + nw - old + maxFinRecord).
      * destruct (batch_flush_rotate d b) as [[d1 b1] ev1] eqn:Hfl. injection Hput as <- <- <- <-.
        destruct (flush_then_stage d b mcur new d1 b1 ev1 (b_cached b1 + nw) _ HI HB Hfl Hsn Hvn) as (A & B & C).
        auto.
      * injection Hput as <- <- <- <-. split; [exact HI|]. split; [reflexivity|]. split; [|reflexivity].
        exists md. split; [exact HR|]. split; [exact Hsn|]. cbn [with_staged b_staged b_committed].
        assert (Hf : forall r0, r_key (mkRec rt_Normal (r_key r0) v 0) = r_key r0) by reflexivity.
        split; [rewrite (staged_update_keys _ _ _ Hf); exact Hnd|]. split; [|exact Hnc].
        intros k'. rewrite amap_get_put. unfold staged_view.
        rewrite (staged_find_update _ _ _ k' Hf), Ef. cbn [option_map].
        destruct (bytes_eqb k' k) eqn:E.
        -- unfold rec_view. cbn [r_type r_value]. rewrite rt_normal_not_deleted. reflexivity.
        -- specialize (Hv k'). unfold staged_view in Hv. exact Hv.
    + set (size := disk_size_estimate (len k) (len v)) in *.
      destruct (c_fsize (d_cfg d) <? b_cached b + size + maxFinRecord).
      * destruct (batch_flush_rotate d b) as [[d1 b1] ev1] eqn:Hfl. injection Hput as <- <- <- <-.
        destruct (flush_then_stage d b mcur new d1 b1 ev1 (b_cached b1 + size) _ HI HB Hfl Hsn Hvn) as (A & B & C).
        auto.
      * injection Hput as <- <- <- <-. split; [exact HI|]. split; [reflexivity|]. split; [|reflexivity].
        exists md. split; [exact HR|]. split; [exact Hsn|]. cbn [with_staged b_staged b_committed].
        split; [|split; [|exact Hnc]].
        -- rewrite map_app. cbn [map]. apply NoDup_app_single; [exact Hnd|apply staged_find_none; exact Ef].
        -- intros k'. rewrite Hvn. unfold staged_view. rewrite staged_find_app.
           specialize (Hv k'). unfold staged_view in Hv.
           destruct (bytes_eqb (r_key new) k') eqn:E.
           ++ cbn [new r_key] in E. apply bytes_eqb_eq in E. subst k'. rewrite Ef. reflexivity.
           ++ destruct (staged_find (b_staged b) k'); exact Hv.
Qed.

Theorem batch_delete_spec d b mcur k d' b' e evs :
  Inv d -> BRel d b mcur -> batch_delete d b k = (d', b', e, evs) ->
  Inv d' /\ e = snd (s_del mcur k) /\ BRel d' b' (fst (s_del mcur k)) /\ d_cfg d' = d_cfg d.
Proof.
  intros HI HB Hdel. unfold batch_delete in Hdel. unfold s_del.
  destruct (len k =? 0) eqn:Ek.
  - injection Hdel as <- <- <- <-. cbn [fst snd]. auto.
  - destruct HB as (md & HR & Hs & Hnd & Hv & Hnc). rewrite Hnc in Hdel. cbn [fst snd].
    assert (HB : BRel d b mcur) by (exists md; auto).
    set (tomb := mkRec rt_Deleted k [] 0) in *.
    assert (Hsn : sorted (fst (amap_del mcur k))) by (apply amap_del_sorted; exact Hs).
    assert (Hvn : forall k', amap_get (fst (amap_del mcur k)) k'
                             = if bytes_eqb (r_key tomb) k' then rec_view tomb else amap_get mcur k').
    { intros k'. rewrite amap_get_del by exact Hs. unfold rec_view, tomb. cbn [r_key r_type r_value].
      rewrite bytes_eqb_sym, rt_deleted_deleted. reflexivity. }
    destruct (staged_find (b_staged b) k) as [r|] eqn:Ef.
    + injection Hdel as <- <- <- <-. split; [exact HI|]. split; [reflexivity|]. split; [|reflexivity].
      exists md. split; [exact HR|]. split; [exact Hsn|]. cbn [with_staged b_staged b_committed].
      assert (Hf : forall r0, r_key (mkRec rt_Deleted (r_key r0) [] 0) = r_key r0) by reflexivity.
      split; [rewrite (staged_update_keys _ _ _ Hf); exact Hnd|]. split; [|exact Hnc].
      intros k'. rewrite amap_get_del by exact Hs. unfold staged_view.
      rewrite (staged_find_update _ _ _ k' Hf), Ef. cbn [option_map].
      destruct (bytes_eqb k' k) eqn:E.
      * unfold rec_view. cbn [r_type]. rewrite rt_deleted_deleted. reflexivity.
      * specialize (Hv k'). unfold staged_view in Hv. exact Hv.
    + pose proof (R_get d md k HR) as Hg.
      destruct (idx_get (d_index d) k) as [p|].
      * set (size := disk_size_estimate (len k) 0) in *.
        destruct (c_fsize (d_cfg d) <? b_cached b + size + maxFinRecord).
        -- destruct (batch_flush_rotate d b) as [[d1 b1] ev1] eqn:Hfl. injection Hdel as <- <- <- <-.
           destruct (flush_then_stage d b mcur tomb d1 b1 ev1 (b_cached b1 + size) _ HI HB Hfl Hsn Hvn) as (A & B & C).
           auto.
        -- injection Hdel as <- <- <- <-. split; [exact HI|]. split; [reflexivity|]. split; [|reflexivity].
           exists md. split; [exact HR|]. split; [exact Hsn|]. cbn [with_staged b_staged b_committed].
           split; [|split; [|exact Hnc]].
           ++ rewrite map_app. cbn [map]. apply NoDup_app_single; [exact Hnd|apply staged_find_none; exact Ef].
           ++ intros k'. rewrite Hvn. unfold staged_view. rewrite staged_find_app.
              specialize (Hv k'). unfold staged_view in Hv.
              destruct (bytes_eqb (r_key tomb) k') eqn:E.
              ** unfold tomb in E. cbn [r_key] in E. apply bytes_eqb_eq in E. subst k'. rewrite Ef. reflexivity.
              ** destruct (staged_find (b_staged b) k'); exact Hv.
      * injection Hdel as <- <- <- <-. split; [exact HI|]. split; [reflexivity|]. split; [|reflexivity].
        assert (Hk : amap_get mcur k = None).
        { rewrite Hv. unfold staged_view. rewrite Ef. exact Hg. }
        rewrite (amap_del_absent mcur k Hk). exact HB.
Qed.

Theorem batch_get_spec d b mcur k :
  Inv d -> BRel d b mcur ->
  exists d' evs, batch_get d b k = (d', s_get mcur k, evs) /\ Inv d' /\ BRel d' b mcur /\ d_cfg d' = d_cfg d.
Proof.
  intros HI HB. unfold batch_get, s_get.
  destruct (len k =? 0) eqn:Ek.
  - eexists _, _. split; [reflexivity|auto].
  - destruct HB as (md & HR & Hs & Hnd & Hv & Hnc). rewrite Hnc.
    assert (HB : BRel d b mcur) by (exists md; auto).
    pose proof (Hv k) as Hk. unfold staged_view in Hk.
    destruct (staged_find (b_staged b) k) as [r|] eqn:Ef.
    + rewrite Hk. unfold rec_view. destruct (r_type r =? rt_Deleted); eexists _, _; (split; [reflexivity|auto]).
    + pose proof (R_get d md k HR) as Hg. rewrite Hk.
      destruct (idx_get (d_index d) k) as [p|].
      * destruct Hg as (v & Hval & Hm). rewrite Hm.
        destruct (db_read_spec d p v (proj1 HI) Hval) as (d' & evs & Hrd & HF' & Hsame & Hcfg).
        exists d', evs. split; [exact Hrd|]. split; [eapply Inv_same; eassumption|]. split; [|exact Hcfg].
        exists md. split; [eapply R_same; eassumption|auto].
      * rewrite Hg. eexists _, _. split; [reflexivity|auto].
Qed.

(* ---- a whole batch ------------------------------------------------------------------------------ *)
Lemma run_bops_spec : forall bops d b mcur d' b' rs evs,
  Inv d -> BRel d b mcur -> run_bops d b bops = (d', b', rs, evs) ->
  Inv d' /\ BRel d' b' (fst (s_bops mcur bops)) /\ rs = snd (s_bops mcur bops) /\ d_cfg d' = d_cfg d.
Proof.
  induction bops as [|o bops IH]; intros d b mcur d' b' rs evs HI HB Hrun; cbn [run_bops s_bops] in *.
  - injection Hrun as <- <- <- <-. auto.
  - destruct o as [k v|k|k].
    + destruct (batch_put d b k v) as [[[d1 b1] e] ev1] eqn:Hp.
      destruct (run_bops d1 b1 bops) as [[[d2 b2] rs2] ev2] eqn:Hr. injection Hrun as <- <- <- <-.
      destruct (batch_put_spec _ _ _ _ _ _ _ _ _ HI HB Hp) as (HI1 & He & HB1 & Hc1).
      destruct (s_put mcur k v) as [m1 e1] eqn:Hsp. cbn [fst snd] in *.
      destruct (IH _ _ _ _ _ _ _ HI1 HB1 Hr) as (HI2 & HB2 & Hrs & Hc2).
      destruct (s_bops m1 bops) as [mf rsf]. cbn [fst snd] in *. subst.
      split; [exact HI2|]. split; [exact HB2|]. split; [reflexivity|congruence].
    + destruct (batch_delete d b k) as [[[d1 b1] e] ev1] eqn:Hp.
      destruct (run_bops d1 b1 bops) as [[[d2 b2] rs2] ev2] eqn:Hr. injection Hrun as <- <- <- <-.
      destruct (batch_delete_spec _ _ _ _ _ _ _ _ HI HB Hp) as (HI1 & He & HB1 & Hc1).
      destruct (s_del mcur k) as [m1 e1] eqn:Hsp. cbn [fst snd] in *.
      destruct (IH _ _ _ _ _ _ _ HI1 HB1 Hr) as (HI2 & HB2 & Hrs & Hc2).
      destruct (s_bops m1 bops) as [mf rsf]. cbn [fst snd] in *. subst.
      split; [exact HI2|]. split; [exact HB2|]. split; [reflexivity|congruence].
    + destruct (batch_get_spec d b mcur k HI HB) as (d1 & ev1 & Hg & HI1 & HB1 & Hc1). rewrite Hg in Hrun.
      destruct (run_bops d1 b bops) as [[[d2 b2] rs2] ev2] eqn:Hr. injection Hrun as <- <- <- <-.
      destruct (IH _ _ _ _ _ _ _ HI1 HB1 Hr) as (HI2 & HB2 & Hrs & Hc2).
      destruct (s_bops mcur bops) as [mf rsf]. cbn [fst snd] in *. subst.
      split; [exact HI2|]. split; [exact HB2|]. split; [reflexivity|congruence].
Qed.
