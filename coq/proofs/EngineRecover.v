(* EngineRecover.v — recovery: replaying the log rebuilds exactly the map the log denotes;
   every live operation extends the log by the records of its mutation; Close followed by Open
   (no merge pending) therefore preserves the map (C02), for every pair of configurations. *)
From Coq Require Import ZArith Lia ZifyN ZifyNat ZifyBool Sorting.Sorted.
From KV Require Import Bytes GenConsts Chunk Record Engine Script BytesLemmas AMapLemmas
  EngineFiles EngineInv EngineBatch EngineRefine EngineLog.
Open Scope N_scope.

Lemma sreplay_app : forall a b m t,
  sreplay m t (a ++ b) = sreplay (fst (sreplay m t a)) (snd (sreplay m t a)) b.
Proof.
  induction a as [|r a IH]; intros b m t; cbn [app sreplay fst snd]; [reflexivity|].
  destruct (r_batch r =? 0); [apply IH|]. destruct (r_type r =? rt_BatchFinished); apply IH.
Qed.

(* updateIndex is the index step of flushStaged *)
Lemma update_index_eq d r p : update_index d (r_key r) (r_type r) p = index_step d r p.
Proof.
  unfold update_index, index_step, idx_del, idx_put.
  cbn [set_counters d_index d_bytes_write d_total d_reclaim].
  destruct (r_type r =? rt_Deleted).
  - destruct (amap_del (d_index d) (r_key r)) as [ix old]. destruct d; reflexivity.
  - destruct (amap_put (d_index d) (r_key r) p) as [ix old]. destruct d; reflexivity.
Qed.

Lemma fold_update_index : forall l d,
  fold_left (fun acc e => update_index acc (r_key (fst e)) (r_type (fst e)) (snd e)) l d = apply_staged d l.
Proof.
  induction l as [|[r p] l IH]; intros d; cbn [fold_left]; [reflexivity|].
  rewrite apply_staged_cons. cbn [fst snd]. rewrite update_index_eq. apply IH.
Qed.

(* pending batches of the engine (records with positions) against those of the specification *)
Definition txn_ok (d : db) (te : txns) (ts : stx) : Prop :=
  Forall2 (fun (e : N * list (record * pos)) (s : N * list record) =>
             fst e = fst s /\ map fst (snd e) = snd s /\
             (forall r p, In (r, p) (snd e) -> rec_at d p = Some r)) te ts.

Lemma txn_ok_get d te ts id : txn_ok d te ts ->
  map fst (txn_get te id) = stx_get ts id /\ (forall r p, In (r, p) (txn_get te id) -> rec_at d p = Some r).
Proof.
  induction 1 as [|[i l] [j s] te ts (Hi & Hm & Hr) _ IH]; cbn [txn_get stx_get]; [split; [reflexivity|intros r p []]|].
  cbn [fst snd] in *. subst j. destruct (i =? id); [split; assumption|exact IH].
Qed.
Lemma txn_ok_del d te ts id : txn_ok d te ts -> txn_ok d (txn_del te id) (stx_del ts id).
Proof.
  induction 1 as [|[i l] [j s] te ts (Hi & Hm & Hr) Hrest IH]; cbn [txn_del stx_del]; [constructor|].
  cbn [fst snd] in *. subst j. destruct (i =? id); [exact Hrest|]. constructor; [auto|exact IH].
Qed.
Lemma txn_ok_add d te ts id r p : txn_ok d te ts -> rec_at d p = Some r ->
  txn_ok d (txn_add te id (r, p)) (stx_add ts id r).
Proof.
  intros H Hp. induction H as [|[i l] [j s] te ts (Hi & Hm & Hr) Hrest IH]; cbn [txn_add stx_add].
  - constructor; [|constructor]. cbn [fst snd]. repeat split; auto. intros r0 p0 [Heq|[]]. injection Heq as <- <-. exact Hp.
  - cbn [fst snd] in *. subst j. destruct (i =? id).
    + constructor; [|exact Hrest]. cbn [fst snd]. split; [reflexivity|]. split.
      * rewrite map_app, Hm. reflexivity.
      * intros r0 p0 Hin. apply in_app_or in Hin. destruct Hin as [Hin|[Heq|[]]]; [auto|]. injection Heq as <- <-. exact Hp.
    + constructor; [auto|exact IH].
Qed.
Lemma txn_ok_same d d' te ts : (forall q, rec_at d' q = rec_at d q) -> txn_ok d te ts -> txn_ok d' te ts.
Proof.
  intros Hrec H. induction H as [|e s te ts (Hi & Hm & Hr) _ IH]; constructor; [|exact IH].
  repeat split; auto. intros r p Hin. rewrite Hrec. auto.
Qed.

(* loadIndexFromDataFiles, one file's records *)
Lemma replay_recs_spec : forall rps d te m ts,
  Inv d -> R d m -> txn_ok d te ts -> (forall r p, In (r, p) rps -> rec_at d p = Some r) ->
  Inv (fst (replay_recs d te rps)) /\
  R (fst (replay_recs d te rps)) (fst (sreplay m ts (map fst rps))) /\
  txn_ok (fst (replay_recs d te rps)) (snd (replay_recs d te rps)) (snd (sreplay m ts (map fst rps))) /\
  (forall q, rec_at (fst (replay_recs d te rps)) q = rec_at d q) /\
  d_cfg (fst (replay_recs d te rps)) = d_cfg d.
Proof.
  induction rps as [|[r p] rps IH]; intros d te m ts HI HR Ht Hall; cbn [replay_recs map sreplay fst snd].
  - auto.
  - assert (Hp : rec_at d p = Some r) by (apply Hall; left; reflexivity).
    assert (Hall' : forall r0 p0, In (r0, p0) rps -> rec_at d p0 = Some r0) by (intros; apply Hall; right; assumption).
    destruct (r_batch r =? 0).
    + rewrite update_index_eq.
      destruct (index_step_spec d m r p r HI HR Hp eq_refl eq_refl eq_refl) as (HI1 & HR1 & Hrec1).
      destruct (IH (index_step d r p) te (rec_apply m r) ts HI1 HR1) as (A & B & C & D & E).
      * eapply txn_ok_same; eassumption.
      * intros r0 p0 Hin. rewrite Hrec1. auto.
      * split; [exact A|]. split; [exact B|]. split; [exact C|]. split.
        -- intros q. rewrite D. apply Hrec1.
        -- rewrite E. apply (index_step_files d r p).
    + destruct (r_type r =? rt_BatchFinished).
      * rewrite fold_update_index.
        destruct (txn_ok_get d te ts (r_batch r) Ht) as [Hm Hr].
        destruct (apply_staged_spec (txn_get te (r_batch r)) d m HI HR) as (HI1 & HR1 & Hrec1 & Hcfg1).
        { intros r0 p0 Hin. exists r0. auto. }
        rewrite Hm in HR1.
        destruct (IH (apply_staged d (txn_get te (r_batch r))) (txn_del te (r_batch r)) _ (stx_del ts (r_batch r)) HI1 HR1)
          as (A & B & C & D & E).
        -- apply txn_ok_del. eapply txn_ok_same; eassumption.
        -- intros r0 p0 Hin. rewrite Hrec1. auto.
        -- split; [exact A|]. split; [exact B|]. split; [exact C|]. split.
           ++ intros q. rewrite D. apply Hrec1.
           ++ rewrite E. exact Hcfg1.
      * destruct (IH d (txn_add te (r_batch r) (r, p)) m (stx_add ts (r_batch r) r) HI HR) as (A & B & C & D & E).
        -- apply txn_ok_add; assumption.
        -- exact Hall'.
        -- auto.
Qed.

(* recovery only rebuilds the index and the counters *)
Lemma replay_recs_files : forall rps d te,
  d_active_id (fst (replay_recs d te rps)) = d_active_id d /\ d_active (fst (replay_recs d te rps)) = d_active d /\
  d_older (fst (replay_recs d te rps)) = d_older d.
Proof.
  induction rps as [|[r p] rps IH]; intros d te; cbn [replay_recs fst]; [auto|].
  destruct (r_batch r =? 0).
  - rewrite update_index_eq. destruct (IH (index_step d r p) te) as (A & B & C).
    destruct (index_step_files d r p) as (F1 & F2 & F3 & _). rewrite A, B, C. auto.
  - destruct (r_type r =? rt_BatchFinished).
    + rewrite fold_update_index. destruct (IH (apply_staged d (txn_get te (r_batch r))) (txn_del te (r_batch r))) as (A & B & C).
      destruct (apply_staged_files (txn_get te (r_batch r)) d) as (F1 & F2 & F3). rewrite A, B, C. auto.
    + apply IH.
Qed.

(* all files, in order *)
Lemma replay_files_spec : forall files d te m ts,
  Inv d -> R d m -> txn_ok d te ts ->
  (forall id f r p, In (id, f) files -> In (r, p) (lf_recs f) -> rec_at d p = Some r) ->
  Inv (fst (replay_files d te files 0)) /\
  R (fst (replay_files d te files 0)) (fst (sreplay m ts (files_log files))) /\
  d_active_id (fst (replay_files d te files 0)) = d_active_id d /\
  d_active (fst (replay_files d te files 0)) = d_active d /\
  d_older (fst (replay_files d te files 0)) = d_older d /\
  d_cfg (fst (replay_files d te files 0)) = d_cfg d /\
  exists ts', snd (sreplay m ts (files_log files)) = ts'.
Proof.
  induction files as [|[id f] files IH]; intros d te m ts HI HR Ht Hall; cbn [replay_files fst snd].
  - unfold files_log. cbn [map concat sreplay fst snd]. split; [exact HI|]. split; [exact HR|].
    do 4 (split; [reflexivity|]). eexists; reflexivity.
  - destruct (id <? 0) eqn:Eid; [lia|].
    assert (Hlog : files_log ((id, f) :: files) = map fst (lf_recs f) ++ files_log files) by reflexivity.
    rewrite Hlog, sreplay_app.
    destruct (replay_recs_spec (lf_recs f) d te m ts HI HR Ht) as (A & B & C & D & E).
    { intros r p Hin. eapply Hall; [left; reflexivity|exact Hin]. }
    destruct (replay_recs_files (lf_recs f) d te) as (F1 & F2 & F3).
    destruct (replay_recs d te (lf_recs f)) as [d1 te1]. cbn [fst snd] in *.
    destruct (IH d1 te1 _ _ A B C) as (A2 & B2 & G1 & G2 & G3 & G4 & G5).
    { intros id0 f0 r p Hin1 Hin2. rewrite D. eapply Hall; [right; exact Hin1|exact Hin2]. }
    split; [exact A2|]. split; [exact B2|]. split; [congruence|]. split; [congruence|]. split; [congruence|]. split; [congruence|exact G5].
Qed.

(* ---- Open on a directory without a pending merge ------------------------------------------------ *)
Fixpoint asc (fs : list (N * lfile)) : Prop :=
  match fs with [] => True | (i, _) :: r => ids_above r i /\ asc r end.
Definition file_ok (x : N * lfile) : Prop :=
  wf_lfile (snd x) /\ pos_ok (fst x) (snd x) /\ lf_phys (snd x) = lf_size (snd x).
Definition disk_ok (k : disk) : Prop := k_merge k = None /\ asc (k_data k) /\ Forall file_ok (k_data k).

Definition same_file (x y : N * lfile) : Prop :=
  fst x = fst y /\ lf_recs (snd x) = lf_recs (snd y) /\ lf_size (snd x) = lf_size (snd y).

Lemma h_open_existing io nm f : lf_phys f = lf_size f ->
  lf_recs (fst (h_open io nm true f)) = lf_recs f /\ lf_size (fst (h_open io nm true f)) = lf_size f.
Proof.
  intros Hp. unfold h_open. destruct (io =? io_MMap).
  - set (f0 := mkLf _ _ _ _ _ _).
    destruct (h_remap_same nm f0 (lf_phys f) mmapBlockSize) as [H1 H2].
    destruct (h_remap nm f0 (lf_phys f) mmapBlockSize) as [f1 evs]. cbn [fst] in *. rewrite H1, H2. cbn. auto.
  - cbn. auto.
Qed.

Lemma open_all_same io : forall files, Forall file_ok files ->
  Forall2 same_file (fst (open_all io files)) files.
Proof.
  induction files as [|[id f] files IH]; intros Hok; cbn [open_all fst]; [constructor|].
  pose proof (Forall_inv Hok) as (Hwf & Hpo & Hph). cbn [fst snd] in *.
  destruct (h_open_existing io (FData id) f Hph) as [H1 H2].
  destruct (h_open io (FData id) true f) as [f' ev1]. specialize (IH (Forall_inv_tail Hok)).
  destruct (open_all io files) as [rest ev2]. cbn [fst] in *.
  constructor; [split; [reflexivity|split; assumption]|exact IH].
Qed.

Lemma same_files_log a b : Forall2 same_file a b -> files_log a = files_log b.
Proof. induction 1 as [|x y a b (_ & Hr & _) _ IH]; [reflexivity|].
  change (files_log (x :: a)) with (file_log (snd x) ++ files_log a).
  change (files_log (y :: b)) with (file_log (snd y) ++ files_log b).
  unfold file_log. rewrite Hr, IH. reflexivity. Qed.
Lemma same_ids_above a b lo : Forall2 same_file a b -> ids_above b lo -> ids_above a lo.
Proof. induction 1 as [|[i f] [j g] a b (Hi & _) _ IH]; cbn; [auto|]. cbn in Hi. subst j. intros [H1 H2]. auto. Qed.
Lemma same_asc a b : Forall2 same_file a b -> asc b -> asc a.
Proof. induction 1 as [|[i f] [j g] a b (Hi & _) Hrest IH]; cbn; [auto|]. cbn in Hi. subst j.
  intros [H1 H2]. split; [eapply same_ids_above; eassumption|auto]. Qed.
Lemma same_file_ok a b : Forall2 same_file a b -> Forall file_ok b ->
  Forall (fun x => wf_lfile (snd x) /\ pos_ok (fst x) (snd x)) a.
Proof.
  induction 1 as [|[i f] [j g] a b (Hi & Hr & Hs) _ IH]; intros Hok; constructor.
  - pose proof (Forall_inv Hok) as (Hwf & Hpo & _). cbn [fst snd] in *. subst j. split.
    + intros r p Hin. rewrite Hr in Hin. rewrite Hs. apply (Hwf r p). exact Hin.
    + eapply pos_ok_same; eassumption.
  - apply IH. exact (Forall_inv_tail Hok).
Qed.

Lemma split_last_spec {A} (l : list A) :
  match split_last l with Some (i, z) => l = i ++ [z] | None => l = [] end.
Proof.
  induction l as [|x l IH]; [reflexivity|]. cbn [split_last]. destruct l as [|y l]; [reflexivity|].
  destruct (split_last (y :: l)) as [[i z]|]; [rewrite IH; reflexivity|discriminate].
Qed.

Lemma asc_app_last a id f : asc (a ++ [(id, f)]) -> ids_below a id /\ asc a.
Proof.
  induction a as [|[i g] a IH]; cbn [app asc ids_below]; [auto|].
  intros [H1 H2]. destruct (IH H2) as [H3 H4].
  assert (Hlt : i < id /\ ids_above a i).
  { clear IH H2 H3 H4. induction a as [|[j h] a IH2]; cbn [app ids_above] in *; [tauto|].
    destruct H1 as [H11 H12]. destruct (IH2 H12) as [H5 H6]. auto. }
  destruct Hlt as [Hlt Habove]. repeat split; auto.
Qed.
Lemma older_get_in o id f : ids_below o (id + 1) -> asc o -> In (id, f) o -> older_get o id = Some f.
Proof.
  induction o as [|[i g] o IH]; cbn [older_get asc ids_below]; intros Hb Ha Hin; [destruct Hin|].
  destruct Ha as [Ha1 Ha2]. destruct Hb as (Hb1 & Hb2 & Hb3). destruct Hin as [Heq|Hin].
  - injection Heq as -> ->. rewrite N.eqb_refl. reflexivity.
  - destruct (i =? id) eqn:E.
    + exfalso. assert (i = id) by lia. subst i. clear - Ha1 Hin.
      induction o as [|[j h] o IH]; [destruct Hin|]. cbn in Ha1. destruct Ha1 as [H1 H2].
      destruct Hin as [Heq|Hin]; [injection Heq as -> _; lia|auto].
    + apply IH; auto.
Qed.
Lemma asc_get_in o id f : asc o -> In (id, f) o -> older_get o id = Some f.
Proof.
  induction o as [|[i g] o IH]; cbn [older_get asc]; intros Ha Hin; [destruct Hin|].
  destruct Ha as [Ha1 Ha2]. destruct Hin as [Heq|Hin].
  - injection Heq as -> ->. rewrite N.eqb_refl. reflexivity.
  - destruct (i =? id) eqn:E; [|apply IH; auto].
    exfalso. assert (i = id) by lia. subst i. clear - Ha1 Hin.
    induction o as [|[j h] o IH]; [destruct Hin|]. cbn in Ha1. destruct Ha1 as [H1 H2].
    destruct Hin as [Heq|Hin]; [injection Heq as -> _; lia|auto].
Qed.
Lemma older_get_some_in o id f : older_get o id = Some f -> In (id, f) o.
Proof.
  induction o as [|[i g] o IH]; cbn [older_get]; [discriminate|].
  destruct (i =? id) eqn:E; [intros [= ->]; left; f_equal; lia|intros H; right; auto].
Qed.

Lemma files_log_single id f : files_log [(id, f)] = file_log f.
Proof. unfold files_log. cbn [map concat snd]. apply app_nil_r. Qed.

(* the log-level invariant of an open database *)
Definition LogOK (d : db) (m : smap) : Prop :=
  Inv d /\ InvO d /\ InvP d /\ R d m /\ fst (sreplay [] [] (log d)) = m.

Theorem db_open_spec c k :
  disk_ok k ->
  exists d k' evs, db_open c k = (OpenOk d k', evs) /\
    LogOK d (fst (sreplay [] [] (files_log (k_data k)))) /\
    log d = files_log (k_data k) /\ d_cfg d = c /\ k_merge k' = None.
Proof.
  intros (Hnm & Hasc & Hok). unfold db_open, load_merge_files. rewrite Hnm.
  pose proof (open_all_same (c_io c) (k_data k) Hok) as Hsame.
  destruct (open_all (c_io c) (k_data k)) as [files ev2]. cbn [fst] in Hsame.
  change (0 <? 0) with false. cbn -[h_open db_rotate replay_files split_last].
  pose proof (same_files_log _ _ Hsame) as Hlog.
  pose proof (same_asc _ _ Hsame Hasc) as Hasc'.
  pose proof (same_file_ok _ _ Hsame Hok) as Hok'.
  pose proof (split_last_spec files) as Hsl.
  destruct (split_last files) as [[older [aid af]]|] eqn:Esl.
  - (* existing files: the one with the largest id becomes the active file *)
    subst files. destruct (asc_app_last _ _ _ Hasc') as [Hbelow Hasco].
    set (d2 := mkDb c aid af older [] 0 0 0).
    assert (Hfiles : forall id f, In (id, f) (older ++ [(aid, af)]) -> file_of d2 id = Some f).
    { intros id f Hin. unfold file_of, d2. cbn [d_active_id d_active d_older].
      apply in_app_or in Hin. destruct Hin as [Hin|[Heq|[]]].
      - destruct (id =? aid) eqn:E.
        + exfalso. assert (id = aid) by lia. subst id. pose proof (asc_get_in _ _ _ Hasco Hin) as Hg.
          rewrite (older_get_none_below _ _ Hbelow) in Hg. discriminate.
        + apply asc_get_in; assumption.
      - injection Heq as -> ->. rewrite N.eqb_refl. reflexivity. }
    assert (Hwfall : forall id f, In (id, f) (older ++ [(aid, af)]) -> wf_lfile f /\ pos_ok id f).
    { intros id f Hin. rewrite Forall_forall in Hok'. exact (Hok' _ Hin). }
    assert (HI2 : Inv d2).
    { split; [split|split]; unfold d2; cbn [d_active d_older d_active_id d_index].
      - apply (Hwfall aid af). apply in_or_app. right. left. reflexivity.
      - intros id f Hg. pose proof (older_get_some_in _ _ _ Hg) as Hin. split.
        + apply (Hwfall id f). apply in_or_app. left. exact Hin.
        + clear - Hbelow Hin. induction older as [|[i g] o IH]; [destruct Hin|]. cbn in Hbelow.
          destruct Hbelow as (H1 & _ & H3). destruct Hin as [Heq|Hin]; [injection Heq as -> _; exact H1|auto].
      - constructor.
      - intros k0 p []. }
    assert (HR2 : R d2 []) by constructor.
    assert (Hres : forall id f r p, In (id, f) (older ++ [(aid, af)]) -> In (r, p) (lf_recs f) -> rec_at d2 p = Some r).
    { intros id f r p Hin Hrp. destruct (Hwfall id f Hin) as [_ Hpo]. destruct (Hpo r p Hrp) as [Hfid Hlk].
      unfold rec_at. rewrite Hfid, (Hfiles id f Hin). exact Hlk. }
    destruct (replay_files_spec (older ++ [(aid, af)]) d2 [] [] [] HI2 HR2 (Forall2_nil _) Hres)
      as (HI3 & HR3 & G1 & G2 & G3 & G4 & _).
    destruct (replay_files d2 [] (older ++ [(aid, af)]) 0) as [d3 t3]. cbn [fst snd] in *.
    assert (HO3 : InvO d3) by (unfold InvO; rewrite G1, G3; exact Hbelow).
    assert (HP3 : InvP d3).
    { split; [rewrite G1, G2; apply (Hwfall aid af); apply in_or_app; right; left; reflexivity|].
      rewrite G3. intros id f Hg. apply (Hwfall id f). apply in_or_app. left. apply older_get_some_in. exact Hg. }
    assert (Hlog3 : log d3 = files_log (older ++ [(aid, af)])).
    { unfold log. rewrite G2, G3, files_log_app, files_log_single. reflexivity. }
    rewrite <- Hlog.
    destruct ((0 <=? aid) && lf_torn af) eqn:Etorn.
    + (* a torn tail in the active file: Open rotates *)
      destruct (db_rotate d3) as [d4 ev5] eqn:Hrot.
      destruct (db_rotate_spec d3 d4 ev5 (proj1 HI3) Hrot) as (HF4 & Hrec4 & Hix4 & Hcfg4 & _).
      destruct (db_rotate_grows d3 d4 ev5 Hrot) as [Hg4 Hpn4].
      destruct (grows_log d3 d4 [] HO3 Hg4) as [Hlog4 HO4]. cbn [map] in Hlog4. rewrite app_nil_r in Hlog4.
      assert (Hs4 : same_recs d3 d4) by (split; assumption).
      eexists _, _, _. split; [reflexivity|]. split; [|split; [congruence|split; [rewrite Hcfg4, G4; reflexivity|exact Hnm]]].
      split; [eapply Inv_same; eassumption|]. split; [exact HO4|].
      split; [exact (grows_InvP d3 d4 [] HO3 HP3 Hg4 (fun _ _ => I) Hpn4)|].
      split; [eapply R_same; eassumption|]. rewrite Hlog4, Hlog3. reflexivity.
    + eexists _, _, _. split; [reflexivity|]. split; [|split; [exact Hlog3|split; [rewrite G4; reflexivity|exact Hnm]]].
      split; [exact HI3|]. split; [exact HO3|]. split; [exact HP3|]. split; [exact HR3|].
      rewrite Hlog3. reflexivity.
  - (* an empty directory: a fresh active file *)
    subst files. inversion Hsame; subst.
    pose proof (h_open_new (c_io c) (FData 0)) as [Hr Hs].
    destruct (h_open (c_io c) (FData 0) false lf_empty) as [n ev] eqn:Ho. cbn [fst] in *.
    cbn [replay_files fst snd andb].
    eexists _, _, _. split; [reflexivity|]. unfold LogOK, log, files_log. cbn [d_older d_active d_cfg map concat app k_data].
    unfold file_log. rewrite Hr. cbn [map sreplay fst].
    split; [|split; [reflexivity|split; [reflexivity|exact Hnm]]].
    split; [|split; [exact I|split; [|split; [constructor|reflexivity]]]].
    + split; [split|split]; cbn [d_active d_older d_index d_active_id].
      * intros r p Hin. rewrite Hr in Hin. destruct Hin.
      * intros id f Hg. discriminate.
      * constructor.
      * intros k0 p [].
    + split; cbn [d_active d_older d_active_id].
      * intros r p Hin. rewrite Hr in Hin. destruct Hin.
      * intros id f Hg. discriminate.
Qed.

(* ---- replaying the records of one batch ------------------------------------------------------------ *)
Definition pend (id : N) (fl : list record) : stx :=
  match fl with [] => [] | _ => [(id, map (tag id) fl)] end.
Definition ok_type (r : record) : Prop := (r_type r =? rt_BatchFinished) = false.

Lemma sreplay_tagged id : id <> 0 -> forall st fl m,
  Forall ok_type st ->
  sreplay m (pend id fl) (map (tag id) st) = (m, pend id (fl ++ st)).
Proof.
  intros Hid. induction st as [|r st IH]; intros fl m Hty; cbn [map sreplay].
  - rewrite app_nil_r. reflexivity.
  - pose proof (Forall_inv Hty) as Hr. unfold ok_type in Hr.
    cbn [tag r_batch r_type]. destruct (id =? 0) eqn:E; [lia|]. rewrite Hr.
    assert (Hadd : stx_add (pend id fl) id (tag id r) = pend id (fl ++ [r])).
    { destruct fl as [|x fl]; cbn [pend app stx_add map]; [reflexivity|]. rewrite N.eqb_refl.
      rewrite map_app. reflexivity. }
    rewrite Hadd, IH by exact (Forall_inv_tail Hty). rewrite <- app_assoc. reflexivity.
Qed.

Lemma sreplay_seal id fl m key : id <> 0 ->
  sreplay m (pend id fl) [mkRec rt_BatchFinished key [] id] = (s_apply_recs m fl, []).
Proof.
  intros Hid. cbn [sreplay r_batch r_type]. destruct (id =? 0) eqn:E; [lia|].
  replace (rt_BatchFinished =? rt_BatchFinished) with true by reflexivity.
  destruct fl as [|x fl]; cbn [pend stx_get stx_del]; [reflexivity|].
  rewrite N.eqb_refl. rewrite (s_apply_recs_tag id (x :: fl)). reflexivity.
Qed.

Lemma R_unique d m1 m2 : R d m1 -> R d m2 -> m1 = m2.
Proof.
  unfold R. generalize (d_index d) as ix. intros ix H1. revert m2.
  induction H1 as [|[k p] [k1 v1] ix m1 [Hk1 Hv1] _ IH]; intros m2 H2; inversion H2 as [|x [k2 v2] ix' m2' [Hk2 Hv2] Hrest]; subst.
  - reflexivity.
  - cbn [fst snd] in *. subst. rewrite Hv1 in Hv2. injection Hv2 as ->. f_equal. apply IH. exact Hrest.
Qed.

(* ---- the log invariant and the live operations -------------------------------------------------- *)
Definition LogInv (d : db) (m : smap) : Prop := LogOK d m /\ snd (sreplay [] [] (log d)) = [].

Lemma sreplay_snoc_plain l m t r : sreplay [] [] l = (m, t) -> r_batch r = 0 ->
  sreplay [] [] (l ++ [r]) = (rec_apply m r, t).
Proof. intros H Hb. rewrite sreplay_app, H. cbn [fst snd sreplay]. rewrite Hb. reflexivity. Qed.

(* operations that leave the files alone keep the log *)
Lemma log_same d d' : d_active d' = d_active d -> d_older d' = d_older d -> log d' = log d.
Proof. intros H1 H2. unfold log. rewrite H1, H2. reflexivity. Qed.

Theorem db_put_log d m k v d' e evs :
  LogInv d m -> db_put d k v = (d', e, evs) -> LogInv d' (fst (s_put m k v)) /\ e = snd (s_put m k v).
Proof.
  intros [(HI & HO & HP & HR & Hm) Ht] Hput.
  destruct (db_put_spec _ _ _ _ _ _ _ HI HR Hput) as (HI' & Hcase).
  unfold s_put. unfold db_put in Hput. destruct (len k =? 0) eqn:Ek; cbn [fst snd].
  - destruct Hcase as (-> & -> & HR'). split; [|reflexivity]. split; [|exact Ht]. unfold LogOK. auto.
  - destruct Hcase as (-> & HR').
    destruct (db_append d (mkRec rt_Normal k v 0)) as [[d1 p] ev1] eqn:Happ.
    destruct (db_append_grows _ _ _ _ _ (proj1 HI) HO HP Happ) as (_ & HP1 & HO1 & Hlog1).
    destruct (idx_put (d_index d1) k p) as [ix old]. injection Hput as <- <-.
    assert (Hlog' : log (add_reclaim (set_index d1 ix) (opt_size old)) = log d ++ [mkRec rt_Normal k v 0])
      by (rewrite <- Hlog1; apply log_same; reflexivity).
    assert (Hsr : sreplay [] [] (log d ++ [mkRec rt_Normal k v 0]) = (fst (amap_put m k v), [])).
    { change (fst (amap_put m k v)) with (rec_apply m (mkRec rt_Normal k v 0)).
      apply sreplay_snoc_plain; [|reflexivity].
      destruct (sreplay [] [] (log d)) as [m0 t0]. cbn [fst snd] in Hm, Ht. subst. reflexivity. }
    split; [|reflexivity]. split; [|rewrite Hlog', Hsr; reflexivity].
    split; [exact HI'|]. split; [exact HO1|]. split; [exact HP1|]. split; [exact HR'|].
    rewrite Hlog', Hsr. reflexivity.
Qed.

(* ---- operations that only touch handles ---------------------------------------------------------- *)
Definition same_frecs (x y : N * lfile) : Prop := fst x = fst y /\ lf_recs (snd x) = lf_recs (snd y).
Definition same_files (d d' : db) : Prop :=
  d_active_id d' = d_active_id d /\ lf_recs (d_active d') = lf_recs (d_active d) /\
  Forall2 same_frecs (d_older d') (d_older d).

Lemma Forall2_same_frecs_refl o : Forall2 same_frecs o o.
Proof. induction o; constructor; [split; reflexivity|assumption]. Qed.
Lemma same_files_refl d : same_files d d.
Proof. split; [reflexivity|]. split; [reflexivity|apply Forall2_same_frecs_refl]. Qed.
Lemma Forall2_same_frecs_trans a b c : Forall2 same_frecs a b -> Forall2 same_frecs b c -> Forall2 same_frecs a c.
Proof. intros H. revert c. induction H as [|x y a b [H1 H2] _ IH]; intros c Hc; inversion Hc as [|y' z b' c' [H3 H4] Hrest]; subst; constructor.
  - split; congruence.
  - apply IH. exact Hrest. Qed.
Lemma same_files_trans a b c : same_files a b -> same_files b c -> same_files a c.
Proof. intros (A1 & A2 & A3) (B1 & B2 & B3). split; [congruence|]. split; [congruence|].
  eapply Forall2_same_frecs_trans; eassumption. Qed.

Lemma same_frecs_log a b : Forall2 same_frecs a b -> files_log a = files_log b.
Proof. induction 1 as [|x y a b [_ Hr] _ IH]; [reflexivity|].
  change (files_log (x :: a)) with (file_log (snd x) ++ files_log a).
  change (files_log (y :: b)) with (file_log (snd y) ++ files_log b).
  unfold file_log. rewrite Hr, IH. reflexivity. Qed.
Lemma same_frecs_above a b lo : Forall2 same_frecs a b -> ids_above b lo -> ids_above a lo.
Proof. induction 1 as [|[i f] [j g] a b [Hi _] _ IH]; cbn; [auto|]. cbn in Hi. subst j. intros [H1 H2]. auto. Qed.
Lemma same_frecs_below a b bound : Forall2 same_frecs a b -> ids_below b bound -> ids_below a bound.
Proof. induction 1 as [|[i f] [j g] a b [Hi _] Hrest IH]; cbn; [auto|]. cbn in Hi. subst j.
  intros (H1 & H2 & H3). split; [exact H1|]. split; [eapply same_frecs_above; eassumption|auto]. Qed.
Lemma same_frecs_get a b id f : Forall2 same_frecs a b -> older_get a id = Some f ->
  exists g, older_get b id = Some g /\ lf_recs f = lf_recs g.
Proof. induction 1 as [|[i x] [j y] a b [Hi Hr] _ IH]; cbn [older_get]; [discriminate|]. cbn [fst snd] in *. subst j.
  destruct (i =? id); [intros [= <-]; eauto|exact IH]. Qed.

Lemma same_files_props d d' : same_files d d' ->
  log d' = log d /\ (InvO d -> InvO d') /\ (InvP d -> InvP d').
Proof.
  intros (H1 & H2 & H3). split; [|split].
  - unfold log, file_log. rewrite H2, (same_frecs_log _ _ H3). reflexivity.
  - unfold InvO. rewrite H1. apply same_frecs_below. exact H3.
  - intros [Hpa Hpo]. split.
    + rewrite H1. eapply pos_ok_same; eassumption.
    + intros id f Hg. destruct (same_frecs_get _ _ _ _ H3 Hg) as (g & Hgg & Hr).
      eapply pos_ok_same; [exact Hr|]. apply Hpo. exact Hgg.
Qed.

Lemma ids_above_get o lo id f : ids_above o lo -> older_get o id = Some f -> lo < id.
Proof. induction o as [|[i g] o IH]; cbn [older_get ids_above]; [discriminate|].
  intros [H1 H2]. destruct (i =? id) eqn:E; [intros _; lia|apply IH; exact H2]. Qed.

Lemma older_set_replace o bound fid f f' : ids_below o bound -> older_get o fid = Some f -> lf_recs f' = lf_recs f ->
  Forall2 same_frecs (older_set o fid f') o.
Proof.
  induction o as [|[i g] o IH]; cbn [older_get older_set ids_below]; [discriminate|].
  intros (Hb1 & Hb2 & Hb3). destruct (i =? fid) eqn:E.
  - intros [= ->] Hr. constructor; [split; [cbn; lia|exact Hr]|apply Forall2_same_frecs_refl].
  - intros Hg Hr. pose proof (ids_above_get _ _ _ _ Hb2 Hg) as Hlt.
    destruct (fid <? i) eqn:E2; [lia|].
    constructor; [split; reflexivity|apply IH; assumption].
Qed.

Lemma db_read_files d p d' r evs : InvO d -> db_read d p = (d', r, evs) -> same_files d d'.
Proof.
  intros HO H. unfold db_read in H. destruct (p_fid p =? d_active_id d).
  - set (sp := read_span (d_active d) p) in *.
    pose proof (h_read_same (io_of d) (FData (d_active_id d)) (d_active d) (fst sp) (snd sp)) as [Hr _].
    destruct (h_read (io_of d) (FData (d_active_id d)) (d_active d) (fst sp) (snd sp)) as [a ev]. cbn [fst] in Hr.
    destruct (lf_lookup (lf_recs a) (p_bid p) (p_off p)); injection H as <- _ _;
      (split; [reflexivity|]; split; [exact Hr|apply Forall2_same_frecs_refl]).
  - destruct (older_get (d_older d) (p_fid p)) as [f|] eqn:Eo.
    + set (sp := read_span f p) in *.
      pose proof (h_read_same (io_of d) (FData (p_fid p)) f (fst sp) (snd sp)) as [Hr _].
      destruct (h_read (io_of d) (FData (p_fid p)) f (fst sp) (snd sp)) as [f' ev]. cbn [fst] in Hr.
      assert (Hs : same_files d (set_older d (older_set (d_older d) (p_fid p) f'))).
      { split; [reflexivity|]. split; [reflexivity|]. cbn [set_older d_older].
        eapply older_set_replace; [exact HO|exact Eo|exact Hr]. }
      destruct (lf_lookup (lf_recs f') (p_bid p) (p_off p)); injection H as <- _ _; exact Hs.
    + injection H as <- _ _. apply same_files_refl.
Qed.

Lemma db_get_files d k d' r evs : InvO d -> db_get d k = (d', r, evs) -> same_files d d'.
Proof.
  intros HO H. unfold db_get in H. destruct (len k =? 0); [injection H as <- _ _; apply same_files_refl|].
  destruct (idx_get (d_index d) k); [eapply db_read_files; eassumption|injection H as <- _ _; apply same_files_refl].
Qed.

Lemma db_fold_aux_files : forall ix d d' r evs, InvO d -> db_fold_aux d ix = (d', r, evs) -> same_files d d'.
Proof.
  induction ix as [|[k p] ix IH]; intros d d' r evs HO H; cbn [db_fold_aux] in H.
  - injection H as <- _ _. apply same_files_refl.
  - destruct (db_read d p) as [[d1 v] ev1] eqn:Hrd.
    pose proof (db_read_files _ _ _ _ _ HO Hrd) as Hs1.
    destruct v as [val|e].
    + destruct (db_fold_aux d1 ix) as [[d2 rest] ev2] eqn:Hf.
      assert (HO1 : InvO d1) by (apply (same_files_props _ _ Hs1); exact HO).
      pose proof (IH _ _ _ _ HO1 Hf) as Hs2.
      destruct rest; injection H as <- _ _; eapply same_files_trans; eassumption.
    + injection H as <- _ _. exact Hs1.
Qed.

Lemma db_sync_files d d' evs : db_sync d = (d', evs) -> same_files d d'.
Proof.
  intros H. unfold db_sync in H.
  pose proof (h_sync_same (FData (d_active_id d)) (d_active d)) as [Hr _].
  destruct (h_sync (FData (d_active_id d)) (d_active d)) as [a ev]. cbn [fst] in Hr. injection H as <- _.
  split; [reflexivity|]. split; [exact Hr|apply Forall2_same_frecs_refl].
Qed.

Lemma merge_files_files c : forall order d non_merge m d' res evs,
  InvO d -> merge_files c d order non_merge m = (d', res, evs) -> same_files d d'.
Proof.
  induction order as [|fid order IH]; intros d non_merge m d' res evs HO Hm; cbn [merge_files] in Hm.
  - injection Hm as <- _ _. apply same_files_refl.
  - destruct (older_get (d_older d) fid) as [f|] eqn:Eg; [|eapply IH; eassumption].
    pose proof (scan_touch_same (c_io c) (FData fid) f) as [Hr _].
    destruct (scan_touch (c_io c) (FData fid) f) as [f' ev0]. cbn [fst] in Hr.
    set (d1 := set_older d (older_set (d_older d) fid f')) in *.
    assert (Hs1 : same_files d d1).
    { split; [reflexivity|]. split; [reflexivity|]. unfold d1. cbn [set_older d_older].
      eapply older_set_replace; [exact HO|exact Eg|exact Hr]. }
    destruct (merge_file c (d_index d1) fid non_merge m (lf_recs f')) as [res1 ev1].
    destruct res1 as [m'|e m'].
    + destruct (merge_files c d1 order non_merge m') as [[d2 res2] ev2] eqn:Hrest.
      injection Hm as <- _ _.
      assert (HO1 : InvO d1) by (apply (same_files_props _ _ Hs1); exact HO).
      eapply same_files_trans; [exact Hs1|eapply IH; eassumption].
    + injection Hm as <- _ _. exact Hs1.
Qed.

(* wrapper: an operation that keeps the log keeps the log invariant *)
Lemma LogInv_keep d d' m : LogInv d m -> Inv d' -> R d' m -> log d' = log d -> InvO d' -> InvP d' -> LogInv d' m.
Proof.
  intros [(HI & HO & HP & HR & Hm) Ht] HI' HR' Hlog HO' HP'. split; [|rewrite Hlog; exact Ht].
  split; [exact HI'|]. split; [exact HO'|]. split; [exact HP'|]. split; [exact HR'|]. rewrite Hlog. exact Hm.
Qed.
Lemma LogInv_same_files d d' m : LogInv d m -> Inv d' -> R d' m -> same_files d d' -> LogInv d' m.
Proof.
  intros HL HI' HR' Hs. destruct (same_files_props _ _ Hs) as (Hlog & HOi & HPi).
  pose proof HL as [(HI & HO & HP & HR & Hm) Ht].
  apply (LogInv_keep d d' m HL HI' HR' Hlog (HOi HO) (HPi HP)).
Qed.

Theorem db_delete_log d m k d' e evs :
  LogInv d m -> db_delete d k = (d', e, evs) -> LogInv d' (fst (s_del m k)) /\ e = snd (s_del m k).
Proof.
  intros HL Hdel. pose proof HL as [(HI & HO & HP & HR & Hm) Ht].
  destruct (db_delete_spec _ _ _ _ _ _ HI HR Hdel) as (HI' & He & HR' & _).
  split; [|exact He]. unfold s_del in *. unfold db_delete in Hdel.
  destruct (len k =? 0) eqn:Ek; cbn [fst snd] in *.
  - injection Hdel as <- _ _. exact HL.
  - pose proof (R_get d m k HR) as Hg.
    destruct (idx_get (d_index d) k) as [p0|] eqn:Eg.
    + destruct (db_append d (mkRec rt_Deleted k [] 0)) as [[d1 p] ev1] eqn:Happ.
      destruct (db_append_grows _ _ _ _ _ (proj1 HI) HO HP Happ) as (_ & HP1 & HO1 & Hlog1).
      cbn [add_reclaim set_counters d_index] in Hdel.
      destruct (idx_del (d_index d1) k) as [ix old].
      assert (Hd' : log d' = log d ++ [mkRec rt_Deleted k [] 0] /\ InvO d' /\ InvP d').
      { destruct old; injection Hdel as <- _ _; rewrite <- Hlog1; (split; [apply log_same; reflexivity|split; assumption]). }
      destruct Hd' as (Hlog' & HO' & HP').
      assert (Hsr : sreplay [] [] (log d ++ [mkRec rt_Deleted k [] 0]) = (fst (amap_del m k), [])).
      { change (fst (amap_del m k)) with (rec_apply m (mkRec rt_Deleted k [] 0)).
        apply sreplay_snoc_plain; [|reflexivity].
        destruct (sreplay [] [] (log d)) as [m0 t0]. cbn [fst snd] in Hm, Ht. subst. reflexivity. }
      split; [|rewrite Hlog', Hsr; reflexivity].
      split; [exact HI'|]. split; [exact HO'|]. split; [exact HP'|]. split; [exact HR'|].
      rewrite Hlog', Hsr. reflexivity.
    + injection Hdel as <- _ _. rewrite (amap_del_absent m k Hg). exact HL.
Qed.

(* ---- batches and the log ---------------------------------------------------------------------------- *)
Definition BL (d : db) (b : batch) (m0 : smap) (fl : list record) : Prop :=
  InvO d /\ InvP d /\ sreplay [] [] (log d) = (m0, pend (b_id b) fl) /\ R d (s_apply_recs m0 fl) /\
  (fl = [] \/ b_staged b <> []) /\ b_id b <> 0 /\ Forall ok_type (b_staged b).
(* the records the batch has flushed so far, in the log: L0 is the log at NewBatch *)
Definition BLog (d : db) (b : batch) (L0 : list record) (fl : list record) : Prop :=
  log d = L0 ++ map (tag (b_id b)) fl /\ Forall ok_type fl.

Lemma BL_start d m sync id : LogInv d m -> id <> 0 -> BL d (new_batch sync id) m [].
Proof.
  intros [(HI & HO & HP & HR & Hm) Ht] Hid. split; [exact HO|]. split; [exact HP|]. split.
  - cbn [pend b_id new_batch]. destruct (sreplay [] [] (log d)) as [m0 t0]. cbn [fst snd] in *. subst. reflexivity.
  - split; [exact HR|]. split; [left; reflexivity|]. split; [exact Hid|constructor].
Qed.

Lemma staged_update_ok st k f : Forall ok_type st -> (forall r, ok_type (f r)) -> Forall ok_type (staged_update st k f).
Proof. intros H Hf. induction st as [|r st IH]; cbn [staged_update]; [constructor|].
  pose proof (Forall_inv H). pose proof (Forall_inv_tail H).
  destruct (bytes_eqb (r_key r) k); constructor; auto. Qed.
Lemma staged_update_nonempty st k f r : staged_find st k = Some r -> staged_update st k f <> [].
Proof. destruct st as [|r0 st]; cbn [staged_find staged_update]; [discriminate|].
  intros _. destruct (bytes_eqb (r_key r0) k); discriminate. Qed.

(* the flush-and-restage step shared by Put and Delete *)
Lemma BL_flush_stage d b m0 fl d1 b1 ev1 r c :
  Inv d -> BL d b m0 fl -> batch_flush_rotate d b = (d1, b1, ev1) -> ok_type r ->
  BL d1 (with_staged b1 (b_staged b1 ++ [r]) c) m0 (fl ++ b_staged b).
Proof.
  intros HI (HO & HP & Hlog & HR & Hne & Hid & Hty) Hfl Hr.
  destruct (batch_flush_rotate_spec _ _ _ _ _ _ HI HR Hfl) as (HI1 & HR1 & _ & Hb1).
  destruct (batch_flush_rotate_log _ _ _ _ _ (proj1 HI) HO HP HI Hfl) as (L1 & O1 & P1).
  subst b1. cbn [b_staged app with_staged b_id].
  split; [exact O1|]. split; [exact P1|]. split.
  - rewrite L1, sreplay_app, Hlog. cbn [fst snd]. apply sreplay_tagged; assumption.
  - split; [rewrite s_apply_recs_app; exact HR1|]. split; [right; discriminate|]. split; [exact Hid|].
    constructor; [exact Hr|constructor].
Qed.

Lemma ok_normal k v : ok_type (mkRec rt_Normal k v 0). Proof. reflexivity. Qed.
Lemma ok_deleted k : ok_type (mkRec rt_Deleted k [] 0). Proof. reflexivity. Qed.

Lemma BL_put d b m0 fl k v d' b' e evs :
  Inv d -> BL d b m0 fl -> batch_put d b k v = (d', b', e, evs) -> exists fl', BL d' b' m0 fl'.
Proof.
  intros HI HB Hput. unfold batch_put in Hput.
  destruct (len k =? 0); [injection Hput as <- <- _ _; eauto|].
  destruct (b_committed b); [injection Hput as <- <- _ _; eauto|].
  pose proof HB as (HO & HP & Hlog & HR & Hne & Hid & Hty).
  destruct (staged_find (b_staged b) k) as [r|] eqn:Ef.
  - destruct (c_fsize (d_cfg d) <? _).
    + destruct (batch_flush_rotate d b) as [[d1 b1] ev1] eqn:Hfl. injection Hput as <- <- _ _.
      eexists. eapply BL_flush_stage; eauto. apply ok_normal.
    + injection Hput as <- <- _ _. exists fl. cbn [with_staged b_staged b_id].
      split; [exact HO|]. split; [exact HP|]. split; [exact Hlog|]. split; [exact HR|].
      split; [right; eapply staged_update_nonempty; eassumption|]. split; [exact Hid|].
      apply staged_update_ok; [exact Hty|]. intros r0. reflexivity.
  - destruct (c_fsize (d_cfg d) <? _).
    + destruct (batch_flush_rotate d b) as [[d1 b1] ev1] eqn:Hfl. injection Hput as <- <- _ _.
      eexists. eapply BL_flush_stage; eauto. apply ok_normal.
    + injection Hput as <- <- _ _. exists fl. cbn [with_staged b_staged b_id].
      split; [exact HO|]. split; [exact HP|]. split; [exact Hlog|]. split; [exact HR|].
      split; [right; destruct (b_staged b); discriminate|]. split; [exact Hid|].
      apply Forall_app. split; [exact Hty|]. constructor; [apply ok_normal|constructor].
Qed.

Lemma BL_delete d b m0 fl k d' b' e evs :
  Inv d -> BL d b m0 fl -> batch_delete d b k = (d', b', e, evs) -> exists fl', BL d' b' m0 fl'.
Proof.
  intros HI HB Hdel. unfold batch_delete in Hdel.
  destruct (len k =? 0); [injection Hdel as <- <- _ _; eauto|].
  destruct (b_committed b); [injection Hdel as <- <- _ _; eauto|].
  pose proof HB as (HO & HP & Hlog & HR & Hne & Hid & Hty).
  destruct (staged_find (b_staged b) k) as [r|] eqn:Ef.
  - injection Hdel as <- <- _ _. exists fl. cbn [with_staged b_staged b_id].
    split; [exact HO|]. split; [exact HP|]. split; [exact Hlog|]. split; [exact HR|].
    split; [right; eapply staged_update_nonempty; eassumption|]. split; [exact Hid|].
    apply staged_update_ok; [exact Hty|]. intros r0. reflexivity.
  - destruct (idx_get (d_index d) k); [|injection Hdel as <- <- _ _; eauto].
    destruct (c_fsize (d_cfg d) <? _).
    + destruct (batch_flush_rotate d b) as [[d1 b1] ev1] eqn:Hfl. injection Hdel as <- <- _ _.
      eexists. eapply BL_flush_stage; eauto. apply ok_deleted.
    + injection Hdel as <- <- _ _. exists fl. cbn [with_staged b_staged b_id].
      split; [exact HO|]. split; [exact HP|]. split; [exact Hlog|]. split; [exact HR|].
      split; [right; destruct (b_staged b); discriminate|]. split; [exact Hid|].
      apply Forall_app. split; [exact Hty|]. constructor; [apply ok_deleted|constructor].
Qed.

Lemma BL_get d b m0 fl k d' r evs :
  Inv d -> BL d b m0 fl -> batch_get d b k = (d', r, evs) -> BL d' b m0 fl.
Proof.
  intros HI HB Hget. unfold batch_get in Hget.
  destruct (len k =? 0); [injection Hget as <- _ _; exact HB|].
  destruct (b_committed b); [injection Hget as <- _ _; exact HB|].
  destruct (staged_find (b_staged b) k) as [r0|].
  - destruct (r_type r0 =? rt_Deleted); injection Hget as <- _ _; exact HB.
  - destruct (idx_get (d_index d) k) as [p|] eqn:Eg; [|injection Hget as <- _ _; exact HB].
    destruct HB as (HO & HP & Hlog & HR & Hne & Hid & Hty).
    pose proof (db_read_files _ _ _ _ _ HO Hget) as Hs.
    destruct (same_files_props _ _ Hs) as (Hl & HOi & HPi).
    (* the read succeeds, so the records are unchanged *)
    pose proof (R_get d _ k HR) as Hg. rewrite Eg in Hg. destruct Hg as (v & Hv & _).
    destruct (db_read_spec d p v (proj1 HI) Hv) as (d2 & ev2 & Hrd & _ & Hsame & _).
    rewrite Hrd in Hget. injection Hget as <- _ _.
    split; [apply HOi; exact HO|]. split; [apply HPi; exact HP|]. split; [rewrite Hl; exact Hlog|].
    split; [eapply R_same; eassumption|]. auto.
Qed.

Lemma run_bops_BL : forall bops d b m0 fl d' b' rs evs,
  Inv d -> (exists mc, BRel d b mc) -> BL d b m0 fl -> run_bops d b bops = (d', b', rs, evs) ->
  exists fl', BL d' b' m0 fl'.
Proof.
  induction bops as [|o bops IH]; intros d b m0 fl d' b' rs evs HI [mc HB] HL Hrun; cbn [run_bops] in Hrun.
  - injection Hrun as <- <- _ _. eauto.
  - destruct o as [k v|k|k].
    + destruct (batch_put d b k v) as [[[d1 b1] e] ev1] eqn:Hp.
      destruct (run_bops d1 b1 bops) as [[[d2 b2] rs2] ev2] eqn:Hr. injection Hrun as <- <- _ _.
      destruct (batch_put_spec _ _ _ _ _ _ _ _ _ HI HB Hp) as (HI1 & _ & HB1 & _).
      destruct (BL_put _ _ _ _ _ _ _ _ _ _ HI HL Hp) as [fl1 HL1].
      eapply IH; eauto.
    + destruct (batch_delete d b k) as [[[d1 b1] e] ev1] eqn:Hp.
      destruct (run_bops d1 b1 bops) as [[[d2 b2] rs2] ev2] eqn:Hr. injection Hrun as <- <- _ _.
      destruct (batch_delete_spec _ _ _ _ _ _ _ _ HI HB Hp) as (HI1 & _ & HB1 & _).
      destruct (BL_delete _ _ _ _ _ _ _ _ _ HI HL Hp) as [fl1 HL1].
      eapply IH; eauto.
    + destruct (batch_get d b k) as [[d1 v] ev1] eqn:Hg.
      destruct (run_bops d1 b bops) as [[[d2 b2] rs2] ev2] eqn:Hr. injection Hrun as <- <- _ _.
      destruct (batch_get_spec d b mc k HI HB) as (d1' & ev1' & Hg' & HI1 & HB1 & _).
      rewrite Hg in Hg'. injection Hg' as -> _ _.
      pose proof (BL_get _ _ _ _ _ _ _ _ HI HL Hg) as HL1.
      eapply IH; eauto.
Qed.

Lemma BRel_nostage d b mcur : Inv d -> BRel d b mcur -> b_staged b = [] -> R d mcur.
Proof.
  intros HI (md & HR & Hs & Hnd & Hv & Hnc) Hst.
  assert (mcur = md); [|subst; exact HR].
  apply sorted_ext; [exact Hs|eapply R_sorted; eassumption|].
  intros k. rewrite Hv, Hst. reflexivity.
Qed.

Theorem batch_commit_log d b mcur m0 fl d' b' e evs :
  Inv d -> BRel d b mcur -> BL d b m0 fl -> batch_commit d b = (d', b', e, evs) -> LogInv d' mcur.
Proof.
  intros HI HB (HO & HP & Hlog & HR & Hne & Hid & Hty) Hc.
  destruct (batch_commit_view _ _ _ _ _ _ _ HI HB Hc) as (HI' & HR' & _ & _).
  pose proof HB as (md & HRmd & Hs & Hnd & Hv & Hnc).
  unfold batch_commit in Hc. rewrite Hnc in Hc.
  destruct (b_staged b) as [|r0 rs] eqn:Est.
  - (* nothing staged, hence nothing flushed: nothing is written *)
    injection Hc as <- _ _ _. destruct Hne as [->|Hne]; [|contradiction].
    cbn [pend s_apply_recs fold_left] in *.
    assert (mcur = m0) by (eapply R_unique; [eapply BRel_nostage; eassumption|exact HR]). subst mcur.
    split; [|rewrite Hlog; reflexivity].
    split; [exact HI|]. split; [exact HO|]. split; [exact HP|]. split; [exact HR|]. rewrite Hlog. reflexivity.
  - set (bc := mkBatch (r0 :: rs) (b_cached b) true (b_sync b) (b_id b)) in *.
    destruct (batch_flush d bc) as [[d1 b1] ev1] eqn:Hfl.
    destruct (batch_flush_spec _ _ _ _ _ _ HI HR Hfl) as (HI1 & HR1 & _ & _).
    destruct (batch_flush_log _ _ _ _ _ (proj1 HI) HO HP Hfl) as (L1 & O1 & P1).
    cbn [bc b_staged b_id] in L1, HR1.
    set (seal := mkRec rt_BatchFinished (dec_digits (b_id b)) [] (b_id b)) in *.
    destruct (lf_append (io_of d1) (FData (d_active_id d1)) (d_active_id d1) (d_active d1) seal) as [[a p] ev2] eqn:Hla.
    destruct (if b_sync b then h_sync (FData (d_active_id d1)) a else (a, [])) as [a' ev3] eqn:Hsy.
    assert (Ha' : lf_recs a' = lf_recs a).
    { destruct (b_sync b).
      - pose proof (h_sync_same (FData (d_active_id d1)) a) as [H _]. rewrite Hsy in H. exact H.
      - injection Hsy as <- <-. reflexivity. }
    injection Hc as <- _ _ _.
    destruct (active_append_log d1 seal a p ev2 a' (proj1 HI1) O1 P1 Hla Ha') as (L2 & O2 & P2).
    assert (Hsr : sreplay [] [] (log (set_active d1 (d_active_id d1) a')) = (s_apply_recs m0 (fl ++ r0 :: rs), [])).
    { rewrite L2, L1, <- app_assoc, sreplay_app, Hlog. cbn [fst snd].
      rewrite sreplay_app, (sreplay_tagged (b_id b) Hid (r0 :: rs) fl m0 Hty). cbn [fst snd].
      apply sreplay_seal. exact Hid. }
    assert (mcur = s_apply_recs m0 (fl ++ r0 :: rs)).
    { eapply R_unique; [exact HR'|]. rewrite s_apply_recs_app.
      (* the database after the seal still denotes the flushed map *)
      assert (Hceq : batch_commit d b = (set_active d1 (d_active_id d1) a', b1, None, ev1 ++ ev2 ++ ev3)).
      { unfold batch_commit. rewrite Hnc, Est. fold bc. rewrite Hfl. fold seal. rewrite Hla, Hsy. reflexivity. }
      destruct (batch_commit_spec d (s_apply_recs m0 fl) b _ _ _ _ HI HR Hnc Hceq) as (_ & HRc & _).
      rewrite Est in HRc. exact HRc. }
    subst mcur. split; [|rewrite Hsr; reflexivity].
    split; [exact HI'|]. split; [exact O2|]. split; [exact P2|]. split; [exact HR'|]. rewrite Hsr. reflexivity.
Qed.

Theorem db_merge_log d k m order d' k' e evs :
  LogInv d m -> db_merge d k order = (d', k', e, evs) -> LogInv d' m.
Proof.
  intros HL Hm. pose proof HL as [(HI & HO & HP & HR & Hmm) Ht].
  destruct (db_merge_live _ _ _ _ _ _ _ _ HI HR Hm) as (HI' & HR' & _).
  unfold db_merge in Hm.
  destruct (db_rotate d) as [d1 ev1] eqn:Hrot.
  destruct (db_rotate_log _ _ _ (proj1 HI) HO HP Hrot) as (L1 & O1 & P1).
  destruct (h_open (c_io (d_cfg d)) (MData 0) false lf_empty) as [a0 ev3].
  destruct (hf_open_new (c_io (d_cfg d))) as [h0 ev4].
  destruct (merge_files (d_cfg d) d1 order (d_active_id d1) (mkMs 0 a0 [] h0)) as [[d2 res] ev5] eqn:Hmf.
  pose proof (merge_files_files _ _ _ _ _ _ _ _ O1 Hmf) as Hs.
  destruct (same_files_props _ _ Hs) as (L2 & HOi & HPi).
  destruct res as [ms|er ms].
  - destruct (hf_close (c_io (d_cfg d)) (ms_hint ms)) as [h1 ev6].
    destruct (h_close (c_io (d_cfg d)) (MData (ms_active_id ms)) (ms_active ms)) as [a1 ev7].
    destruct (ms_close_older (c_io (d_cfg d)) (ms_older ms)) as [o1 ev8].
    destruct (db_sync d2) as [d3 evS] eqn:Hsy.
    injection Hm as <- _ _ _.
    destruct (same_files_props _ _ (db_sync_files _ _ _ Hsy)) as (L3 & HOi3 & HPi3).
    eapply LogInv_keep; [exact HL|exact HI'|exact HR'|congruence|auto|auto].
  - injection Hm as <- _ _ _.
    eapply LogInv_keep; [exact HL|exact HI'|exact HR'|congruence|auto|auto].
Qed.

(* ---- Close, then Open ---------------------------------------------------------------------------------- *)
Lemma h_close_spec io nm f :
  lf_recs (fst (h_close io nm f)) = lf_recs f /\ lf_size (fst (h_close io nm f)) = lf_size f /\
  lf_phys (fst (h_close io nm f)) = lf_size f.
Proof. unfold h_close. destruct (io =? io_MMap); cbn; auto. Qed.

Definition closed_of (x y : N * lfile) : Prop :=
  fst x = fst y /\ lf_recs (snd x) = lf_recs (snd y) /\ lf_size (snd x) = lf_size (snd y) /\
  lf_phys (snd x) = lf_size (snd y).
Lemma close_all_spec io : forall files, Forall2 closed_of (fst (close_all io files)) files.
Proof.
  induction files as [|[id f] files IH]; cbn [close_all fst]; [constructor|].
  destruct (h_close_spec io (FData id) f) as (H1 & H2 & H3).
  destruct (h_close io (FData id) f) as [f' ev1]. destruct (close_all io files) as [rest ev2]. cbn [fst] in *.
  constructor; [split; [reflexivity|auto]|exact IH].
Qed.

Lemma ids_below_asc_app o id f : ids_below o id -> asc (o ++ [(id, f)]).
Proof.
  induction o as [|[i g] o IH]; cbn [app asc ids_below]; [auto|].
  intros (H1 & H2 & H3). split; [|apply IH; exact H3].
  clear IH H3. induction o as [|[j h] o IH2]; cbn [app ids_above] in *; [auto|].
  destruct H2 as [H21 H22]. split; [exact H21|apply IH2; exact H22].
Qed.
Lemma closed_ids_below a b bound : Forall2 closed_of a b -> ids_below b bound -> ids_below a bound.
Proof.
  induction 1 as [|[i f] [j g] a b (Hi & _) Hrest IH]; cbn; [auto|]. cbn in Hi. subst j.
  intros (H1 & H2 & H3). split; [exact H1|]. split; [|auto].
  clear - Hrest H2. induction Hrest as [|[i' f'] [j' g'] a b (Hi' & _) _ IH]; cbn in *; [auto|].
  subst j'. destruct H2. auto.
Qed.
Lemma closed_files_log a b : Forall2 closed_of a b -> files_log a = files_log b.
Proof. induction 1 as [|x y a b (_ & Hr & _) _ IH]; [reflexivity|].
  change (files_log (x :: a)) with (file_log (snd x) ++ files_log a).
  change (files_log (y :: b)) with (file_log (snd y) ++ files_log b).
  unfold file_log. rewrite Hr, IH. reflexivity. Qed.

Lemma closed_file_ok a b : Forall2 closed_of a b ->
  (forall id f, In (id, f) b -> wf_lfile f /\ pos_ok id f) -> Forall file_ok a.
Proof.
  induction 1 as [|[i f] [j g] a b (Hi & Hr & Hs & Hp) _ IH]; intros Hall; [constructor|]. cbn [fst snd] in *. subst j.
  constructor.
  - destruct (Hall i g (or_introl eq_refl)) as [Hwf Hpos]. split; [|split]; cbn [fst snd].
    + intros r p Hrp. rewrite Hr in Hrp. rewrite Hs. apply (Hwf r p). exact Hrp.
    + eapply pos_ok_same; eassumption.
    + congruence.
  - apply IH. intros id f0 H. apply Hall. right. exact H.
Qed.

Theorem db_close_spec d k m k' evs :
  LogInv d m -> k_merge k = None -> db_close d k = (k', evs) ->
  disk_ok k' /\ files_log (k_data k') = log d.
Proof.
  intros [(HI & HO & HP & HR & Hm) Ht] Hnm Hc. unfold db_close in Hc.
  destruct (h_close_spec (io_of d) (FData (d_active_id d)) (d_active d)) as (A1 & A2 & A3).
  destruct (h_close (io_of d) (FData (d_active_id d)) (d_active d)) as [a ev1].
  pose proof (close_all_spec (io_of d) (d_older d)) as Hcl.
  destruct (close_all (io_of d) (d_older d)) as [o ev2]. cbn [fst] in *.
  injection Hc as <- _.
  pose proof (closed_ids_below _ _ _ Hcl HO) as Hbo.
  cbn [k_data k_merge]. rewrite (older_set_append o (d_active_id d) a Hbo).
  split; [split; [exact Hnm|split]|].
  - apply ids_below_asc_app. exact Hbo.
  - apply Forall_app. split.
    + destruct HI as [[_ Hold] _]. destruct HP as [_ Hpo].
      apply (closed_file_ok _ _ Hcl). intros id f Hin.
      assert (Hg : older_get (d_older d) id = Some f).
      { apply asc_get_in; [|exact Hin]. unfold InvO in HO. clear - HO.
        induction (d_older d) as [|[i g] l IH]; cbn in *; [auto|]. destruct HO as (_ & H2 & H3). auto. }
      split; [apply (Hold _ _ Hg)|apply (Hpo _ _ Hg)].
    + constructor; [|constructor]. destruct HI as [[Hact _] _]. destruct HP as [Hpa _].
      split; [|split]; cbn [fst snd].
      * intros r p Hrp. rewrite A1 in Hrp. rewrite A2. apply (Hact r p). exact Hrp.
      * eapply pos_ok_same; eassumption.
      * congruence.
  - rewrite files_log_app, files_log_single, (closed_files_log _ _ Hcl). unfold log, file_log. rewrite A1. reflexivity.
Qed.

Theorem restart_spec d k m c k1 ev1 :
  LogInv d m -> k_merge k = None -> db_close d k = (k1, ev1) ->
  exists d' k2 ev2, db_open c k1 = (OpenOk d' k2, ev2) /\ LogInv d' m /\ k_merge k2 = None /\ d_cfg d' = c.
Proof.
  intros HL Hnm Hc. destruct (db_close_spec _ _ _ _ _ HL Hnm Hc) as (Hok & Hlog).
  destruct (db_open_spec c k1 Hok) as (d' & k2 & ev2 & Ho & HLO & Hlog' & Hcfg & Hnm2).
  destruct HL as [(_ & _ & _ & _ & Hm) Ht].
  exists d', k2, ev2. split; [exact Ho|]. rewrite Hlog, Hm in HLO.
  split; [split; [exact HLO|rewrite Hlog', Hlog; exact Ht]|auto].
Qed.

(* ---- every script with restarts (and without merges) -------------------------------------------------- *)
Definition op_ok (o : op) : Prop :=
  match o with OpMerge _ => False | OpBatch _ id _ => id <> 0 | _ => True end.

Theorem step_log d k m o d' k' r evs :
  LogInv d m -> k_merge k = None -> op_ok o -> step (d, k) o = ((d', k'), r, evs) ->
  LogInv d' (fst (sstep m o)) /\ k_merge k' = None /\ proj r = proj (snd (sstep m o)).
Proof.
  intros HL Hnm Hok Hst. pose proof HL as [(HI & HO & HP & HR & Hm) Ht].
  destruct o as [key v|key|key| | | | |sync id bops|order|c]; cbn [step sstep] in *.
  - destruct (db_put d key v) as [[d1 e] ev1] eqn:Hp. injection Hst as <- <- <- <-.
    destruct (db_put_log _ _ _ _ _ _ _ HL Hp) as [HL1 He]. destruct (s_put m key v). cbn [fst snd] in *. subst. auto.
  - destruct (db_get_spec d m key HI HR) as (d1 & ev1 & Hg & HI1 & HR1 & _).
    pose proof (db_get_files _ _ _ _ _ HO Hg) as Hs. rewrite Hg in Hst. injection Hst as <- <- <- <-.
    cbn [fst snd]. split; [eapply LogInv_same_files; eassumption|auto].
  - destruct (db_delete d key) as [[d1 e] ev1] eqn:Hp. injection Hst as <- <- <- <-.
    destruct (db_delete_log _ _ _ _ _ _ HL Hp) as [HL1 He]. destruct (s_del m key). cbn [fst snd] in *. subst. auto.
  - injection Hst as <- <- <- <-. cbn [fst snd]. rewrite (db_list_keys_spec d m HR). auto.
  - destruct (db_fold_spec d m HI HR) as (d1 & ev1 & Hf & HI1 & HR1 & _).
    pose proof (db_fold_aux_files _ _ _ _ _ HO Hf) as Hs. rewrite Hf in Hst. injection Hst as <- <- <- <-.
    cbn [fst snd]. split; [eapply LogInv_same_files; eassumption|auto].
  - unfold db_stat in Hst. injection Hst as <- <- <- <-. cbn [fst snd proj]. rewrite (db_keynum_spec d m HR). auto.
  - destruct (db_sync d) as [d1 ev1] eqn:Hs. injection Hst as <- <- <- <-.
    destruct (db_sync_spec _ _ _ _ HI HR Hs) as (HI1 & HR1 & _).
    cbn [fst snd]. split; [eapply LogInv_same_files; [exact HL|exact HI1|exact HR1|eapply db_sync_files; exact Hs]|auto].
  - destruct (run_bops d (new_batch sync id) bops) as [[[d1 b1] rs] ev1] eqn:Hr.
    destruct (batch_commit d1 b1) as [[[d2 b2] e] ev2] eqn:Hc. injection Hst as <- <- <- <-.
    pose proof (BRel_start d m sync id HI HR) as HB0.
    destruct (run_bops_spec _ _ _ _ _ _ _ _ HI HB0 Hr) as (HI1 & HB1 & Hrs & _).
    destruct (run_bops_BL _ _ _ _ _ _ _ _ _ HI (ex_intro _ m HB0) (BL_start d m sync id HL Hok) Hr) as [fl1 HL1].
    destruct (batch_commit_view _ _ _ _ _ _ _ HI1 HB1 Hc) as (_ & _ & -> & _).
    pose proof (batch_commit_log _ _ _ _ _ _ _ _ _ HI1 HB1 HL1 Hc) as HL2.
    destruct (s_bops m bops) as [mf rsf]. cbn [fst snd] in *. subst rs. auto.
  - destruct Hok.
  - destruct (db_close d k) as [k1 ev1] eqn:Hc.
    destruct (restart_spec d k m c k1 ev1 HL Hnm Hc) as (d1 & k2 & ev2 & Ho & HL1 & Hnm2 & _).
    rewrite Ho in Hst. injection Hst as <- <- <- <-. cbn [fst snd]. auto.
Qed.

Theorem run_log : forall ops d k m s' rs evs,
  LogInv d m -> k_merge k = None -> Forall op_ok ops -> run (d, k) ops = (s', rs, evs) ->
  map proj rs = map proj (srun m ops) /\ exists m', LogInv (fst s') m'.
Proof.
  induction ops as [|o ops IH]; intros d k m s' rs evs HL Hnm Hok Hrun; cbn [run srun] in *.
  - injection Hrun as <- <- <-. split; [reflexivity|]. exists m. exact HL.
  - inversion Hok as [|? ? Ho Hrest]; subst.
    destruct (step (d, k) o) as [[[d1 k1] r] ev1] eqn:Hst.
    destruct (run (d1, k1) ops) as [[s2 rs2] ev2] eqn:Hr2. injection Hrun as <- <- <-.
    destruct (step_log _ _ _ _ _ _ _ _ HL Hnm Ho Hst) as (HL1 & Hnm1 & Hpr).
    destruct (sstep m o) as [m1 r1]. cbn [fst snd] in *.
    destruct (IH _ _ _ _ _ _ HL1 Hnm1 Hrest Hr2) as (Hrs & Hm2).
    cbn [map]. rewrite Hpr, Hrs. auto.
Qed.

Lemma open_empty_log c : exists d k evs, db_open c empty_disk = (OpenOk d k, evs) /\ LogInv d [] /\ k_merge k = None.
Proof.
  assert (Hok : disk_ok empty_disk) by (split; [reflexivity|split; [exact I|constructor]]).
  destruct (db_open_spec c empty_disk Hok) as (d & k & evs & Ho & HLO & Hlog & _ & Hnm).
  exists d, k, evs. split; [exact Ho|]. cbn in HLO. split; [split; [exact HLO|rewrite Hlog; reflexivity]|exact Hnm].
Qed.

(* ---- the log during a batch: L0 ++ the tagged records flushed so far --------------------------------- *)
Lemma BLog_flush_stage d b m0 fl L0 d1 b1 ev1 :
  Inv d -> BL d b m0 fl -> BLog d b L0 fl -> batch_flush_rotate d b = (d1, b1, ev1) ->
  log d1 = L0 ++ map (tag (b_id b)) (fl ++ b_staged b) /\ Forall ok_type (fl ++ b_staged b) /\ b_id b1 = b_id b.
Proof.
  intros HI (HO & HP & _ & HR & _ & _ & Hty) [Hlog Htf] Hfl.
  destruct (batch_flush_rotate_log _ _ _ _ _ (proj1 HI) HO HP HI Hfl) as (L1 & _ & _).
  destruct (batch_flush_rotate_spec _ _ _ _ _ _ HI HR Hfl) as (_ & _ & _ & ->).
  split; [rewrite L1, Hlog, map_app, app_assoc; reflexivity|]. split; [apply Forall_app; auto|reflexivity].
Qed.

Lemma BLog_put d b m0 fl L0 k v d' b' e evs :
  Inv d -> BL d b m0 fl -> BLog d b L0 fl -> batch_put d b k v = (d', b', e, evs) ->
  exists fl', BL d' b' m0 fl' /\ BLog d' b' L0 fl' /\ b_id b' = b_id b.
Proof.
  intros HI HB HG Hput. pose proof Hput as Hput0. unfold batch_put in Hput.
  destruct (len k =? 0); [injection Hput as <- <- _ _; eauto|].
  destruct (b_committed b); [injection Hput as <- <- _ _; eauto|].
  destruct (staged_find (b_staged b) k) as [r|] eqn:Ef.
  - destruct (c_fsize (d_cfg d) <? _).
    + destruct (batch_flush_rotate d b) as [[d1 b1] ev1] eqn:Hfl. injection Hput as <- <- _ _.
      destruct (BLog_flush_stage _ _ _ _ _ _ _ _ HI HB HG Hfl) as (A & B & C).
      exists (fl ++ b_staged b). split; [eapply BL_flush_stage; eauto; apply ok_normal|].
      split; [split; [cbn [with_staged b_id]; rewrite C; exact A|exact B]|exact C].
    + injection Hput as <- <- _ _. destruct (BL_put _ _ _ _ _ _ _ _ _ _ HI HB Hput0) as [fl' HB'].
      exists fl. split; [|split; [exact HG|reflexivity]].
      destruct HB as (HO & HP & Hlog & HR & Hne & Hid & Hty). unfold batch_put in Hput0.
      cbn [with_staged b_staged b_id].
      split; [exact HO|]. split; [exact HP|]. split; [exact Hlog|]. split; [exact HR|].
      split; [right; eapply staged_update_nonempty; eassumption|]. split; [exact Hid|].
      apply staged_update_ok; [exact Hty|]. intros r0. reflexivity.
  - destruct (c_fsize (d_cfg d) <? _).
    + destruct (batch_flush_rotate d b) as [[d1 b1] ev1] eqn:Hfl. injection Hput as <- <- _ _.
      destruct (BLog_flush_stage _ _ _ _ _ _ _ _ HI HB HG Hfl) as (A & B & C).
      exists (fl ++ b_staged b). split; [eapply BL_flush_stage; eauto; apply ok_normal|].
      split; [split; [cbn [with_staged b_id]; rewrite C; exact A|exact B]|exact C].
    + injection Hput as <- <- _ _. exists fl. split; [|split; [exact HG|reflexivity]].
      destruct HB as (HO & HP & Hlog & HR & Hne & Hid & Hty). cbn [with_staged b_staged b_id].
      split; [exact HO|]. split; [exact HP|]. split; [exact Hlog|]. split; [exact HR|].
      split; [right; destruct (b_staged b); discriminate|]. split; [exact Hid|].
      apply Forall_app. split; [exact Hty|]. constructor; [apply ok_normal|constructor].
Qed.

Lemma BLog_delete d b m0 fl L0 k d' b' e evs :
  Inv d -> BL d b m0 fl -> BLog d b L0 fl -> batch_delete d b k = (d', b', e, evs) ->
  exists fl', BL d' b' m0 fl' /\ BLog d' b' L0 fl' /\ b_id b' = b_id b.
Proof.
  intros HI HB HG Hdel. unfold batch_delete in Hdel.
  destruct (len k =? 0); [injection Hdel as <- <- _ _; eauto|].
  destruct (b_committed b); [injection Hdel as <- <- _ _; eauto|].
  pose proof HB as (HO & HP & Hlog & HR & Hne & Hid & Hty).
  destruct (staged_find (b_staged b) k) as [r|] eqn:Ef.
  - injection Hdel as <- <- _ _. exists fl. split; [|split; [exact HG|reflexivity]]. cbn [with_staged b_staged b_id].
    split; [exact HO|]. split; [exact HP|]. split; [exact Hlog|]. split; [exact HR|].
    split; [right; eapply staged_update_nonempty; eassumption|]. split; [exact Hid|].
    apply staged_update_ok; [exact Hty|]. intros r0. reflexivity.
  - destruct (idx_get (d_index d) k); [|injection Hdel as <- <- _ _; eauto].
    destruct (c_fsize (d_cfg d) <? _).
    + destruct (batch_flush_rotate d b) as [[d1 b1] ev1] eqn:Hfl. injection Hdel as <- <- _ _.
      destruct (BLog_flush_stage _ _ _ _ _ _ _ _ HI HB HG Hfl) as (A & B & C).
      exists (fl ++ b_staged b). split; [eapply BL_flush_stage; eauto; apply ok_deleted|].
      split; [split; [cbn [with_staged b_id]; rewrite C; exact A|exact B]|exact C].
    + injection Hdel as <- <- _ _. exists fl. split; [|split; [exact HG|reflexivity]]. cbn [with_staged b_staged b_id].
      split; [exact HO|]. split; [exact HP|]. split; [exact Hlog|]. split; [exact HR|].
      split; [right; destruct (b_staged b); discriminate|]. split; [exact Hid|].
      apply Forall_app. split; [exact Hty|]. constructor; [apply ok_deleted|constructor].
Qed.

Lemma BLog_get d b m0 fl L0 k d' r evs :
  Inv d -> BL d b m0 fl -> BLog d b L0 fl -> batch_get d b k = (d', r, evs) -> BLog d' b L0 fl.
Proof.
  intros HI HB [Hlog Htf] Hget. split; [|exact Htf]. rewrite <- Hlog.
  unfold batch_get in Hget.
  destruct (len k =? 0); [injection Hget as <- _ _; reflexivity|].
  destruct (b_committed b); [injection Hget as <- _ _; reflexivity|].
  destruct (staged_find (b_staged b) k) as [r0|]; [destruct (r_type r0 =? rt_Deleted); injection Hget as <- _ _; reflexivity|].
  destruct (idx_get (d_index d) k) as [p|]; [|injection Hget as <- _ _; reflexivity].
  destruct HB as (HO & _). exact (proj1 (same_files_props _ _ (db_read_files _ _ _ _ _ HO Hget))).
Qed.

Lemma run_bops_BLog : forall bops d b m0 fl L0 d' b' rs evs,
  Inv d -> (exists mc, BRel d b mc) -> BL d b m0 fl -> BLog d b L0 fl -> run_bops d b bops = (d', b', rs, evs) ->
  exists fl', BL d' b' m0 fl' /\ BLog d' b' L0 fl' /\ b_id b' = b_id b.
Proof.
  induction bops as [|o bops IH]; intros d b m0 fl L0 d' b' rs evs HI [mc HB] HL HG Hrun; cbn [run_bops] in Hrun.
  - injection Hrun as <- <- _ _. eauto.
  - destruct o as [k v|k|k].
    + destruct (batch_put d b k v) as [[[d1 b1] e] ev1] eqn:Hp.
      destruct (run_bops d1 b1 bops) as [[[d2 b2] rs2] ev2] eqn:Hr. injection Hrun as <- <- _ _.
      destruct (batch_put_spec _ _ _ _ _ _ _ _ _ HI HB Hp) as (HI1 & _ & HB1 & _).
      destruct (BLog_put _ _ _ _ _ _ _ _ _ _ _ HI HL HG Hp) as (fl1 & HL1 & HG1 & Hid1).
      destruct (IH _ _ _ _ _ _ _ _ _ HI1 (ex_intro _ _ HB1) HL1 HG1 Hr) as (fl2 & A & B & C).
      exists fl2. split; [exact A|]. split; [exact B|congruence].
    + destruct (batch_delete d b k) as [[[d1 b1] e] ev1] eqn:Hp.
      destruct (run_bops d1 b1 bops) as [[[d2 b2] rs2] ev2] eqn:Hr. injection Hrun as <- <- _ _.
      destruct (batch_delete_spec _ _ _ _ _ _ _ _ HI HB Hp) as (HI1 & _ & HB1 & _).
      destruct (BLog_delete _ _ _ _ _ _ _ _ _ _ HI HL HG Hp) as (fl1 & HL1 & HG1 & Hid1).
      destruct (IH _ _ _ _ _ _ _ _ _ HI1 (ex_intro _ _ HB1) HL1 HG1 Hr) as (fl2 & A & B & C).
      exists fl2. split; [exact A|]. split; [exact B|congruence].
    + destruct (batch_get d b k) as [[d1 v] ev1] eqn:Hg.
      destruct (run_bops d1 b bops) as [[[d2 b2] rs2] ev2] eqn:Hr. injection Hrun as <- <- _ _.
      destruct (batch_get_spec d b mc k HI HB) as (d1' & ev1' & Hg' & HI1 & HB1 & _).
      rewrite Hg in Hg'. injection Hg' as -> _ _.
      pose proof (BL_get _ _ _ _ _ _ _ _ HI HL Hg) as HL1.
      pose proof (BLog_get _ _ _ _ _ _ _ _ _ HI HL HG Hg) as HG1.
      exact (IH _ _ _ _ _ _ _ _ _ HI1 (ex_intro _ _ HB1) HL1 HG1 Hr).
Qed.

(* Commit: the log becomes L0 ++ tagged records ++ sealing record (or stays L0 if nothing was staged) *)
Lemma batch_commit_chunk d b mcur m0 fl L0 d' b' e evs :
  Inv d -> BRel d b mcur -> BL d b m0 fl -> BLog d b L0 fl -> batch_commit d b = (d', b', e, evs) ->
  (fl ++ b_staged b = [] /\ log d' = L0 /\ mcur = m0) \/
  (log d' = L0 ++ map (tag (b_id b)) (fl ++ b_staged b) ++ [mkRec rt_BatchFinished (dec_digits (b_id b)) [] (b_id b)] /\
   mcur = s_apply_recs m0 (fl ++ b_staged b) /\ Forall ok_type (fl ++ b_staged b)).
Proof.
  intros HI HB HL [Hlog Htf] Hc. pose proof HL as (HO & HP & Hsr & HR & Hne & Hid & Hty).
  pose proof HB as (md & HRmd & Hs & Hnd & Hv & Hnc).
  destruct (batch_commit_view _ _ _ _ _ _ _ HI HB Hc) as (HI' & HR' & _ & _).
  unfold batch_commit in Hc. rewrite Hnc in Hc.
  destruct (b_staged b) as [|r0 rs] eqn:Est.
  - injection Hc as <- _ _ _. destruct Hne as [->|Hne]; [|contradiction]. left.
    cbn [app map] in *. rewrite app_nil_r in Hlog. split; [reflexivity|]. split; [exact Hlog|].
    eapply R_unique; [eapply BRel_nostage; eassumption|exact HR].
  - right. set (bc := mkBatch (r0 :: rs) (b_cached b) true (b_sync b) (b_id b)) in *.
    destruct (batch_flush d bc) as [[d1 b1] ev1] eqn:Hfl.
    destruct (batch_flush_spec _ _ _ _ _ _ HI HR Hfl) as (HI1 & HR1 & _ & _).
    destruct (batch_flush_log _ _ _ _ _ (proj1 HI) HO HP Hfl) as (L1 & O1 & P1).
    cbn [bc b_staged b_id] in L1, HR1.
    set (seal := mkRec rt_BatchFinished (dec_digits (b_id b)) [] (b_id b)) in *.
    destruct (lf_append (io_of d1) (FData (d_active_id d1)) (d_active_id d1) (d_active d1) seal) as [[a p] ev2] eqn:Hla.
    destruct (if b_sync b then h_sync (FData (d_active_id d1)) a else (a, [])) as [a' ev3] eqn:Hsy.
    assert (Ha' : lf_recs a' = lf_recs a).
    { destruct (b_sync b).
      - pose proof (h_sync_same (FData (d_active_id d1)) a) as [H _]. rewrite Hsy in H. exact H.
      - injection Hsy as <- <-. reflexivity. }
    assert (Hceq : batch_commit d b = (set_active d1 (d_active_id d1) a', b1, None, ev1 ++ ev2 ++ ev3)).
    { unfold batch_commit. rewrite Hnc, Est. fold bc. rewrite Hfl. fold seal. rewrite Hla, Hsy. reflexivity. }
    injection Hc as <- _ _ _.
    destruct (active_append_log d1 seal a p ev2 a' (proj1 HI1) O1 P1 Hla Ha') as (L2 & _ & _).
    split; [rewrite L2, L1, Hlog, map_app, <- !app_assoc; reflexivity|]. split.
    + eapply R_unique; [exact HR'|]. rewrite s_apply_recs_app.
      destruct (batch_commit_spec d (s_apply_recs m0 fl) b _ _ _ _ HI HR Hnc Hceq) as (_ & HRc & _).
      rewrite Est in HRc. exact HRc.
    + apply Forall_app. auto.
Qed.
