(* EngineMergeCrash.v — a crash while Merge is running, or while a finished merge is being adopted
   by Open, loses nothing and resurrects nothing (C07). *)
From Coq Require Import ZArith Lia ZifyN ZifyNat ZifyBool Sorting.Sorted.
From KV Require Import Bytes GenConsts Chunk Record Engine Script BytesLemmas AMapLemmas
  EngineFiles EngineInv EngineBatch EngineRefine EngineLog EngineRecover EngineSync EngineCrash
  EngineOpen EngineAdopt EngineMerge EngineKeep EngineMergeRun.
Open Scope N_scope.

(* the data files of a crash image of the open database d *)
Definition crash_files (d : db) (cuts : N -> lfile -> N) (cutA : N) : list (N * lfile) :=
  map (fun x => (fst x, lf_crash (snd x) (cuts (fst x) (snd x)))) (d_older d) ++ [(d_active_id d, lf_crash (d_active d) cutA)].

Lemma crash_orecs cuts : forall l x,
  (forall id f, In (id, f) l -> forall r p, In (r, p) (lf_recs f) -> pos_end p <= cuts id f) ->
  orecs (map (fun y => (fst y, lf_crash (snd y) (cuts (fst y) (snd y)))) l) x = orecs l x.
Proof.
  unfold orecs. induction l as [|[i g] l IH]; intros x H; [reflexivity|]. cbn [map fst snd older_get].
  destruct (i =? x).
  - unfold file_log, lf_crash. cbv zeta. cbn [lf_recs]. f_equal. apply recs_upto_all.
    intros r p Hrp. exact (H i g (or_introl eq_refl) r p Hrp).
  - apply IH. intros id f Hx. apply H. right. exact Hx.
Qed.

Lemma crash_files_ok d m cuts cutA :
  LogInv d m -> (forall id f, In (id, f) (d_older d) -> lf_size f <= cuts id f) ->
  asc (crash_files d cuts cutA) /\ Forall file_ok (crash_files d cuts cutA) /\
  files_log (crash_files d cuts cutA) = surviving_log d cutA /\
  (forall mid x, mid <= d_active_id d -> x < mid -> orecs (crash_files d cuts cutA) x = orecs (d_older d) x).
Proof.
  intros [(HI & HO & HP & HR & Hm) Ht] Hcuts.
  destruct HI as [[Hact Hold] _]. destruct HP as [Hpa Hpo]. unfold InvO in HO.
  assert (Hin : forall id f, In (id, f) (d_older d) -> older_get (d_older d) id = Some f).
  { intros id f H. apply asc_get_in; [|exact H]. exact (ids_below_asc _ _ HO). }
  unfold crash_files. set (olderc := map (fun x => (fst x, lf_crash (snd x) (cuts (fst x) (snd x)))) (d_older d)).
  assert (Hids : ids_below olderc (d_active_id d)).
  { unfold olderc. clear - HO. induction (d_older d) as [|[i g] l IH]; cbn [map ids_below fst snd] in *; [exact I|].
    destruct HO as (H1 & H2 & H3). split; [exact H1|]. split; [|apply IH; exact H3].
    clear - H2. induction l as [|[j h] l IH]; cbn [map ids_above fst snd] in *; [exact I|]. destruct H2. auto. }
  assert (Hends : forall id f, In (id, f) (d_older d) -> forall r p, In (r, p) (lf_recs f) -> pos_end p <= cuts id f).
  { intros id f Hx r p Hrp. pose proof (Hin id f Hx) as Hg. destruct (Hold _ _ Hg) as [Hwf _].
    destruct (Hwf r p Hrp) as (_ & _ & H3 & _). pose proof (Hcuts id f Hx). unfold pos_end, pstart in *. lia. }
  assert (Hlogc : files_log olderc = files_log (d_older d)) by (unfold olderc; apply crash_older_log; exact Hends).
  split; [apply ids_below_asc_app; exact Hids|]. split; [|split].
  - apply Forall_app. split.
    + unfold olderc. rewrite Forall_forall. intros [i g] Hx. apply in_map_iff in Hx. destruct Hx as ([i0 g0] & Heq & Hx).
      cbn [fst snd] in Heq. injection Heq as <- <-. pose proof (Hin _ _ Hx) as Hg.
      apply crash_file_ok; [exact (proj1 (Hold _ _ Hg))|exact (Hpo _ _ Hg)].
    + constructor; [|constructor]. apply crash_file_ok; assumption.
  - rewrite files_log_app, files_log_single, Hlogc. reflexivity.
  - intros mid x Hmid Hx. rewrite <- (older_set_append olderc (d_active_id d) _ Hids), orecs_set_other by lia.
    unfold olderc. apply crash_orecs. exact Hends.
Qed.

Lemma load_merge_ignored k md : k_merge k = Some md -> ignored md ->
  exists k1 ev, load_merge_files k = (k1, 0, ev) /\ k_data k1 = k_data k /\ exists md', k_merge k1 = Some md' /\ ignored md'.
Proof.
  intros Hm Hig. unfold load_merge_files. rewrite Hm.
  destruct Hig as [Hn|Hz]; [rewrite Hn|rewrite Hz]; change (0 =? 0) with true; cbv iota;
    eexists _, _; (split; [reflexivity|]); (split; [reflexivity|]); eexists; (split; [reflexivity|right; reflexivity]).
Qed.

(* a crash while Merge is running (the marker is not yet written: the merge directory may hold
   anything) - also with the unsynced tail of the active file cut anywhere: Open recovers what the
   surviving log denotes (all of the mapping when nothing was cut) and ignores the merge directory *)
Theorem crash_during_merge d M cuts cutA c hint md :
  LogInv d M -> (forall id f, In (id, f) (d_older d) -> lf_size f <= cuts id f) -> ignored md ->
  exists d' k' evs, db_open c (mkDisk (crash_files d cuts cutA) hint (Some md)) = (OpenOk d' k', evs) /\
    LogOK d' (fst (sreplay [] [] (surviving_log d cutA))) /\
    (lf_size (d_active d) <= cutA -> LogInv d' M) /\
    (exists md', k_merge k' = Some md' /\ ignored md').
Proof.
  intros HL Hcuts Hig. destruct (crash_files_ok d M cuts cutA HL Hcuts) as (Hasc & Hok & Hlog & _).
  destruct (load_merge_ignored (mkDisk (crash_files d cuts cutA) hint (Some md)) md eq_refl Hig) as (k1 & ev & Hload & Hd & md' & Hk1 & Hig').
  cbn [k_data] in Hd.
  destruct (db_open_general c _ k1 0 ev Hload) as (d1 & k2 & ev2 & Ho & HLO & Hlog' & Hcfg & Hk2);
    [rewrite Hd; exact Hasc|rewrite Hd; exact Hok|left; reflexivity|].
  rewrite Hd, Hlog in HLO, Hlog'.
  exists d1, k2, ev2. split; [exact Ho|]. split; [exact HLO|]. split; [|exists md'; rewrite Hk2; auto].
  intros Hfull.
  assert (Hall : surviving_log d cutA = log d).
  { unfold surviving_log, log, file_log. f_equal. f_equal. apply recs_upto_all.
    intros r p Hin. destruct HL as [(((Hact & _) & _) & _) _].
    destruct (Hact r p Hin) as (_ & _ & H3 & _). unfold pos_end, pstart in *. lia. }
  rewrite Hall in HLO, Hlog'. rewrite (LogInv_sreplay _ _ HL) in HLO. cbn [fst] in HLO.
  split; [exact HLO|]. rewrite Hlog', (LogInv_sreplay _ _ HL). reflexivity.
Qed.

(* a crash after Merge has finished (marker written) and before / at any point of its adoption,
   without loss of bytes (the process died): see open_pending for the family of directory states;
   here the instance "the database was still open", i.e. the crash image of a state with a pending
   merge *)
Theorem crash_with_finished_merge d k M cuts cutA c :
  G d k M -> (forall id f, In (id, f) (d_older d) -> lf_size f <= cuts id f) -> lf_size (d_active d) <= cutA ->
  forall md, k_merge k = Some md -> ~ ignored md ->
  exists d' k' evs, db_open c (mkDisk (crash_files d cuts cutA) (k_hint k) (Some md)) = (OpenOk d' k', evs) /\
    LogInv d' M /\ k_merge k' = None.
Proof.
  intros [HL HM] Hcuts Hfull md Hkm Hnig. unfold MergeState in HM. rewrite Hkm in HM.
  destruct HM as [Hig|(mid & M0 & OL & PL & Hmd & Hpos & Hle & Hlogd & Hlo & Hsr)]; [contradiction|].
  destruct (crash_files_ok d M cuts cutA HL Hcuts) as (Hasc & Hok & Hlog & Hor).
  assert (Hall : surviving_log d cutA = log d).
  { unfold surviving_log, log, file_log. f_equal. f_equal. apply recs_upto_all.
    intros r p Hin. destruct HL as [(((Hact & _) & _) & _) _].
    destruct (Hact r p Hin) as (_ & _ & H3 & _). unfold pos_end, pstart in *. lia. }
  rewrite Hall in Hlog.
  destruct Hmd as (n & h & Hmk & Hh & Hn0 & Hn & Hmok & Hhint & Hpl & Hden).
  set (data := crash_files d cuts cutA) in *.
  assert (HPL : files_log (from_ mid data) = PL).
  { pose proof (split_at data mid mid Hasc ltac:(lia) ltac:(intros; lia)) as Hsp.
    pose proof Hlog as Hl. rewrite Hsp, files_log_app, Hlogd in Hl.
    rewrite <- (N2Nat.id mid) in Hl at 1. rewrite (below_lookup _ Hasc) in Hl.
    rewrite (lo_lookup_ext data (d_older d)) in Hl.
    - rewrite Hlo in Hl. apply app_inv_head in Hl. exact Hl.
    - intros x Hx. apply (Hor mid); lia. }
  destruct (open_pending c (mkDisk data (k_hint k) (Some md)) md mid n 0 h (m_files md) M0 PL M eq_refl Hmk Hpos Hn0 Hn ltac:(lia) Hmok
              ltac:(rewrite from_zero; reflexivity) Hasc Hok ltac:(intros; lia) ltac:(intros; lia) (or_introl Hh)
              Hhint Hpl Hden HPL Hsr) as (d1 & k2 & ev2 & Ho & HL1 & Hk2 & _).
  exists d1, k2, ev2. auto.
Qed.

(* ---- a crash inside the removal of a left-over merge directory ------------------------------------ *)
(* Merge removes the finished-marker of a left-over directory first, then the directory.  os.RemoveAll
   unlinks entry by entry: whichever entries are already gone when the process dies, what is left has no
   marker and is ignored by Open (crash_during_merge applies to it). *)
From KV Require Import Crash.

Lemma remove_marker_clears s : fs_marker (fs_apply s (EvRemove MMarker)) = None.
Proof. reflexivity. Qed.

Lemma partial_removal_is_ignored s gone m :
  fs_marker s = None ->
  match k_merge (fs_to_disk (fs_partial_rm s gone) m) with Some md => ignored md | None => True end.
Proof.
  intros Hm. unfold fs_to_disk, fs_partial_rm. cbn [fs_merge fs_marker k_merge].
  destruct (fs_merge s); [|exact I]. left. cbn [m_marker]. rewrite Hm. destruct (gone MMarker); reflexivity.
Qed.

(* the data directory is not touched by a partial removal of the merge directory *)
Lemma partial_removal_keeps_data s gone m :
  k_data (fs_to_disk (fs_partial_rm s gone) m) = k_data (fs_to_disk s m) /\
  k_hint (fs_to_disk (fs_partial_rm s gone) m) = k_hint (fs_to_disk s m).
Proof.
  unfold fs_to_disk, fs_partial_rm. cbn [k_data k_hint fs_files fs_hints]. split.
  - f_equal. induction (fs_files s) as [|[nm f] l IH]; [reflexivity|]. cbn [filter fst].
    destruct nm; cbn [in_merge_dir andb negb data_files]; try (rewrite IH; reflexivity);
      destruct (gone _); cbn [negb data_files]; exact IH.
  - induction (fs_hints s) as [|[nm h] l IH]; [reflexivity|]. cbn [filter fst].
    destruct nm; cbn [in_merge_dir andb negb fget fname_eqb]; try exact IH; try reflexivity;
      destruct (gone _); cbn [negb fget fname_eqb]; try exact IH; reflexivity.
Qed.

(* Merge's events over a left-over directory: the marker is removed before the directory is *)
Lemma merge_removes_marker_first d k order md :
  k_merge k = Some md ->
  exists pre post, snd (db_merge d k order) = pre ++ [EvRemove MMarker; EvRemoveAllMerge; EvMkdirMerge] ++ post /\
                   pre = snd (db_rotate d).
Proof.
  intros Hm. unfold db_merge. rewrite Hm. destruct (db_rotate d) as [d1 ev1]. cbn [snd].
  destruct (h_open (c_io (d_cfg d)) (MData 0) false lf_empty) as [a0 ev3].
  destruct (hf_open_new (c_io (d_cfg d))) as [h0 ev4].
  destruct (merge_files (d_cfg d) d1 order (d_active_id d1) (mkMs 0 a0 [] h0)) as [[d2 res] ev5].
  destruct res as [m|e m].
  - destruct (hf_close (c_io (d_cfg d)) (ms_hint m)) as [h1 ev6].
    destruct (h_close (c_io (d_cfg d)) (MData (ms_active_id m)) (ms_active m)) as [a1 ev7].
    destruct (ms_close_older (c_io (d_cfg d)) (ms_older m)) as [o1 ev8].
    destruct (db_sync d2) as [d3 evS]. cbn [snd].
    eexists ev1, _. split; [|reflexivity]. rewrite <- ?app_assoc. cbn [app]. reflexivity.
  - cbn [snd]. eexists ev1, _. split; [|reflexivity]. rewrite <- ?app_assoc. cbn [app]. reflexivity.
Qed.
