(* DataTypeCodec.v — the encodings of datatype/meta.go: varint round trips, metadata round trip,
   injectivity of the internal keys. *)
From Coq Require Import List NArith Lia Bool.
From Coq Require Import ZifyN ZifyBool.
From KV Require Import Bytes GenConsts BytesLemmas DataType.
Import ListNotations.
Open Scope N_scope.

(* ---- binary.Uvarint (binary.PutUvarint x ++ rest) for x < 2^64 ------------------------------------- *)
Lemma uvarint_fuel_put : forall (f : nat) i acc x rest,
  (1 <= f)%nat -> i + N.of_nat f = 10 -> x * 2 ^ (7 * i) < 2 ^ 64 ->
  uvarint_fuel f i (7 * i) acc (put_uvarint_fuel f x ++ rest)
  = Some (acc + x * 2 ^ (7 * i), i + len (put_uvarint_fuel f x)).
Proof.
  induction f as [|f IH]; intros i acc x rest Hf Hi Hx; [lia|].
  cbn [put_uvarint_fuel uvarint_fuel].
  destruct (x <? 128) eqn:Ex.
  - cbn [app]. rewrite Ex. apply N.ltb_lt in Ex.
    assert (Hchk : (i =? 9) && (1 <? x) = false).
    { destruct (i =? 9) eqn:E9; [|reflexivity]. apply N.eqb_eq in E9. subst i. cbn [andb].
      apply N.ltb_ge. change (7 * 9) with 63 in Hx.
      assert (2 ^ 64 = 2 * 2 ^ 63) by reflexivity. nia. }
    rewrite Hchk. unfold len. cbn [length]. reflexivity.
  - apply N.ltb_ge in Ex. cbn [app].
    assert (Hb : (x mod 128 + 128 <? 128) = false) by (apply N.ltb_ge; lia). rewrite Hb.
    destruct f as [|f'].
    { (* i = 9 and x >= 128: impossible *)
      assert (i = 9) by lia. subst i. change (7 * 9) with 63 in Hx.
      assert (2 ^ 64 = 2 * 2 ^ 63) by reflexivity. assert (0 < 2 ^ 63) by (apply N.neq_0_lt_0; apply N.pow_nonzero; lia). nia. }
    assert (Hm : (x mod 128 + 128) mod 128 = x mod 128).
    { rewrite N.add_mod by lia. change (128 mod 128) with 0. rewrite N.add_0_r. rewrite N.mod_mod by lia. apply N.mod_mod. lia. }
    rewrite Hm.
    assert (Hs : 7 * i + 7 = 7 * (i + 1)) by lia. rewrite Hs.
    assert (Hp : 2 ^ (7 * (i + 1)) = 128 * 2 ^ (7 * i)).
    { rewrite <- Hs. rewrite N.pow_add_r. change (2 ^ 7) with 128. lia. }
    pose proof (N.div_mod x 128 ltac:(lia)) as Hdm.
    rewrite IH; [| lia | lia |].
    + f_equal. f_equal.
      * rewrite Hp. set (P := 2 ^ (7 * i)) in *. set (q := x / 128) in *. set (r := x mod 128) in *. nia.
      * rewrite (len_cons _ (put_uvarint_fuel (S f') (x / 128))). lia.
    + rewrite Hp. set (P := 2 ^ (7 * i)) in *. set (q := x / 128) in *. set (r := x mod 128) in *. nia.
Qed.

Lemma uvarint_put x rest : x < 2 ^ 64 -> uvarint (put_uvarint x ++ rest) = Some (x, len (put_uvarint x)).
Proof.
  intros Hx. unfold uvarint, put_uvarint.
  pose proof (uvarint_fuel_put 10 0 0 x rest ltac:(lia) ltac:(reflexivity)) as H.
  change (7 * 0) with 0 in H. rewrite N.pow_0_r, N.mul_1_r in H. rewrite H by exact Hx. f_equal.
Qed.

Lemma varint_nonneg_put x rest : x < 2 ^ 63 ->
  varint_nonneg (put_varint_nonneg x ++ rest) = Some (x, len (put_varint_nonneg x)).
Proof.
  intros Hx. unfold varint_nonneg, put_varint_nonneg.
  assert (H2 : 2 * x < 2 ^ 64). { assert (2 ^ 64 = 2 * 2 ^ 63) by reflexivity. lia. }
  rewrite (uvarint_put (2 * x) rest H2).
  rewrite N.odd_mul. change (N.odd 2) with false. cbn [andb].
  f_equal. f_equal. rewrite N.mul_comm. apply N.div_mul. lia.
Qed.

(* ---- metadata --------------------------------------------------------------------------------------- *)
Definition wf_meta (m : meta) : Prop :=
  m_expire m < 2 ^ 63 /\ m_version m < 2 ^ 63 /\ m_size m < 2 ^ 63 /\ m_head m < 2 ^ 64 /\ m_tail m < 2 ^ 64 /\
  (m_type m <> ty_List -> m_head m = 0 /\ m_tail m = 0).

Theorem dec_enc_meta m : wf_meta m -> dec_meta (enc_meta m) = Some m.
Proof.
  intros (He & Hv & Hs & Hh & Ht & Hnl). unfold enc_meta, dec_meta. cbn [app].
  rewrite varint_nonneg_put by exact He. rewrite drop_app_exact by reflexivity.
  rewrite varint_nonneg_put by exact Hv. rewrite drop_app_exact by reflexivity.
  rewrite varint_nonneg_put by exact Hs.
  destruct (m_type m =? ty_List) eqn:E.
  - rewrite drop_app_exact by reflexivity.
    rewrite uvarint_put by exact Hh. rewrite drop_app_exact by reflexivity.
    rewrite <- (app_nil_r (put_uvarint (m_tail m))). rewrite uvarint_put by exact Ht.
    destruct m; reflexivity.
  - apply N.eqb_neq in E. destruct (Hnl E) as [H0 H1]. destruct m; cbn in *. subst. reflexivity.
Qed.

Lemma enc_meta_head m : exists r, enc_meta m = m_type m :: r.
Proof. unfold enc_meta. cbn [app]. eexists. reflexivity. Qed.

(* a string record decodes to its value and expiry *)
Lemma enc_string_dec v ex : ex < 2 ^ 63 ->
  exists n, varint_nonneg (put_varint_nonneg ex ++ v) = Some (ex, n) /\ drop n (put_varint_nonneg ex ++ v) = v.
Proof.
  intros H. exists (len (put_varint_nonneg ex)). split; [apply varint_nonneg_put; exact H|].
  apply drop_app_exact. reflexivity.
Qed.

(* ---- internal keys ------------------------------------------------------------------------------------ *)
Definition ikey (k : bytes) (ver : N) (y : bytes) : bytes := k ++ le64 ver ++ y.

Lemma app_eq_len {A} : forall (a a' b b' : list A), length a = length a' -> a ++ b = a' ++ b' -> a = a' /\ b = b'.
Proof.
  induction a as [|x a IH]; intros [|x' a'] b b' Hl He; cbn in *; try discriminate.
  - auto.
  - injection He as -> He. injection Hl as Hl. destruct (IH _ _ _ Hl He) as [-> ->]. auto.
Qed.

Lemma le32_inj a b : a < 4294967296 -> b < 4294967296 -> le32 a = le32 b -> a = b.
Proof. intros Ha Hb H. rewrite <- (rd32_le32 a [] Ha), <- (rd32_le32 b [] Hb). rewrite H. reflexivity. Qed.

Lemma le64_inj a b : a < 2 ^ 64 -> b < 2 ^ 64 -> le64 a = le64 b -> a = b.
Proof.
  intros Ha Hb H. unfold le64 in H.
  apply app_eq_len in H; [|reflexivity]. destruct H as [H1 H2].
  assert (E : 2 ^ 64 = 4294967296 * 4294967296) by reflexivity.
  apply le32_inj in H1; [|apply N.mod_lt; lia|apply N.mod_lt; lia].
  apply le32_inj in H2; [|apply N.div_lt_upper_bound; lia|apply N.div_lt_upper_bound; lia].
  rewrite (N.div_mod a 4294967296), (N.div_mod b 4294967296) by lia. rewrite H1, H2. reflexivity.
Qed.

Lemma length_le64 v : length (le64 v) = 8%nat. Proof. reflexivity. Qed.

Lemma ikey_inj k v y v' y' : v < 2 ^ 64 -> v' < 2 ^ 64 -> ikey k v y = ikey k v' y' -> v = v' /\ y = y'.
Proof.
  intros Hv Hv' H. unfold ikey in H. apply app_inv_head in H.
  apply app_eq_len in H; [|reflexivity]. destruct H as [H1 H2]. split; [apply le64_inj; assumption|exact H2].
Qed.

Lemma ikey_neq_self k v y : ikey k v y <> k.
Proof.
  unfold ikey. intros H. apply (f_equal (@length _)) in H. rewrite !app_length, length_le64 in H. lia.
Qed.

Lemma ikey_len k v y : len (ikey k v y) <> 0.
Proof. unfold ikey. rewrite !len_app. change (len (le64 v)) with 8. lia. Qed.

Lemma suffix_len_inj (m m' : bytes) : m ++ le32 (len m) = m' ++ le32 (len m') -> m = m'.
Proof.
  intros H. assert (Hl : length m = length m').
  { apply (f_equal (@length _)) in H. rewrite !app_length in H. cbn in H. lia. }
  apply (app_eq_len _ _ _ _ Hl H).
Qed.

(* the sorted-set collision (D22): the member record of one member is the score-order record of another *)
Theorem zset_keys_collide k ver score m :
  zmember_key k ver (score ++ m ++ le32 (len m)) = zscore_key k ver score m.
Proof. reflexivity. Qed.
