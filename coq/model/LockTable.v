(* LockTable.v — the directory lock of Open / Close (db.go, gofrs/flock).  Model only.
   A handle is one *DB (or one attempt to open); a directory is identified by a number. *)
From Coq Require Import List NArith Bool.
Import ListNotations.
Open Scope N_scope.

Inductive lres := LOk | LInUse | LFailed | LNotOpen.

(* who holds the lock of which directory *)
Definition ltable := list (N * N).   (* (directory, handle) *)

Fixpoint holder (t : ltable) (dir : N) : option N :=
  match t with [] => None | (d, h) :: r => if d =? dir then Some h else holder r dir end.
Fixpoint release (t : ltable) (h : N) : ltable :=
  match t with [] => [] | (d, h') :: r => if h' =? h then release r h else (d, h') :: release r h end.
Definition holds (t : ltable) (h : N) : bool := existsb (fun x => snd x =? h) t.

Inductive lop :=
| LOpen (h dir : N) (init_fails : bool)   (* Open by a new handle; the rest of Open (loading files) may fail *)
| LClose (h : N).

(* Open: TryLock; when the lock is held by anyone (this process or another) the call fails with
   ErrDatabaseIsUsing and nothing else happens; when initialisation fails afterwards the deferred
   Unlock releases the lock again; Close releases it *)
Definition lstep (t : ltable) (o : lop) : ltable * lres :=
  match o with
  | LOpen h dir fails =>
    match holder t dir with
    | Some _ => (t, LInUse)
    | None => if fails then (t, LFailed) else ((dir, h) :: t, LOk)
    end
  | LClose h => if holds t h then (release t h, LOk) else (t, LNotOpen)
  end.

Fixpoint lrun (t : ltable) (ops : list lop) : ltable * list lres :=
  match ops with
  | [] => (t, [])
  | o :: r => let '(t1, x) := lstep t o in let '(t2, xs) := lrun t1 r in (t2, x :: xs)
  end.

(* ---- the exit paths of Open, as extracted from the source (gen/GenOpenPaths.v) ----------------- *)
Record exit_path := mkExit {
  e_line : N;            (* source line of the return statement *)
  e_after_lock : bool;   (* the return lies after the successful TryLock *)
  e_success : bool;      (* it returns the database (nil error) *)
  e_opened_set : bool;   (* "opened = true" was executed on this path *)
}.
(* a path is fine when: before the lock is taken nothing is returned as success; after it, success
   paths keep the lock (opened = true, the deferred function does nothing) and failure paths run the
   deferred Unlock (opened still false) *)
Definition exit_ok (defer_guard : bool) (e : exit_path) : bool :=
  if e_after_lock e then
    (e_success e && e_opened_set e) || (negb (e_success e) && negb (e_opened_set e) && defer_guard)
  else negb (e_success e).

(* ---- the exit paths of Close, as extracted from the source (gen/GenOpenPaths.v) ---------------- *)
Record close_exit := mkCExit {
  ce_line : N;            (* source line of the return statement *)
  ce_released : bool;     (* the release of the directory lock is guaranteed on this path: a deferred
                             function registered before it calls fileLock.Unlock, or an explicit
                             fileLock.Unlock() precedes it in an enclosing block *)
}.
