(* Index.v — index/sharded_index.go IndexIterator over per-shard iterators (btree.go, skiplist.go,
   map.go) and iterator.go (prefix filter).  Model only.

   A shard iterator is a snapshot of its shard in iteration order (ascending, or descending when
   reverse) and a cursor.  The sharded iterator keeps the shard iterators that are valid ("live":
   the heap; only its minimum is observable) and those that ran out ("parked": oldItems). *)
From KV Require Import Bytes GenConsts Chunk Record Engine.
Open Scope N_scope.

Inductive ikind := KBTree | KSkipList | KHashMap.

Record sit := mkSit { s_kind : ikind; s_vals : list (bytes * pos); s_cur : nat }.

Definition s_valid (s : sit) : bool := Nat.ltb (s_cur s) (length (s_vals s)).
Definition s_head (s : sit) : option (bytes * pos) := nth_error (s_vals s) (s_cur s).

(* iteration order: ascending byte order, descending when reversed *)
Definition key_before (rev : bool) (a b : bytes) : bool := if rev then bytes_ltb b a else bytes_ltb a b.
(* [a] is at or after the seek target [t] in iteration order *)
Definition at_or_after (rev : bool) (t a : bytes) : bool := negb (key_before rev a t).

(* sort.Search / AscendGreaterOrEqual / DescendLessOrEqual: index of the first element at or after t *)
Fixpoint search (rev : bool) (t : bytes) (l : list (bytes * pos)) : nat :=
  match l with
  | [] => O
  | x :: r => if at_or_after rev t (fst x) then O else S (search rev t r)
  end.

Definition s_rewind (s : sit) : sit :=
  match s_kind s with
  | KBTree => if Nat.eqb (length (s_vals s)) 0 then s else mkSit (s_kind s) (s_vals s) 0
  | _ => mkSit (s_kind s) (s_vals s) 0
  end.
Definition s_seek (rev : bool) (t : bytes) (s : sit) : sit :=
  match s_kind s with
  | KBTree => if s_valid s then mkSit (s_kind s) (s_vals s) (search rev t (s_vals s)) else s
  | _ => mkSit (s_kind s) (s_vals s) (search rev t (s_vals s))
  end.
Definition s_next (s : sit) : sit :=
  match s_kind s with
  | KBTree => if s_valid s then mkSit (s_kind s) (s_vals s) (S (s_cur s)) else s
  | _ => mkSit (s_kind s) (s_vals s) (S (s_cur s))
  end.

(* ---- the sharded iterator ------------------------------------------------------------------------ *)
Record iit := mkIit { i_rev : bool; i_live : list sit; i_old : list sit }.

(* the live iterator whose current key comes first: heap.items[0] *)
Fixpoint min_live (rev : bool) (l : list sit) : option sit :=
  match l with
  | [] => None
  | s :: r =>
    match min_live rev r with
    | None => Some s
    | Some m =>
      match s_head s, s_head m with
      | Some a, Some b => if key_before rev (fst a) (fst b) then Some s else Some m
      | _, _ => Some m
      end
    end
  end.

(* remove the minimum from the list (heap.Pop) *)
Fixpoint remove_min (rev : bool) (l : list sit) : list sit :=
  match l with
  | [] => []
  | s :: r =>
    match min_live rev r with
    | None => []
    | Some m =>
      match s_head s, s_head m with
      | Some a, Some b => if key_before rev (fst a) (fst b) then r else s :: remove_min rev r
      | _, _ => s :: remove_min rev r
      end
    end
  end.

(* ShardedIndex.Iterator: one iterator per shard; only the valid ones (non-empty shards) are kept *)
Definition i_new (kind : ikind) (rev : bool) (shards : list (list (bytes * pos))) : iit :=
  mkIit rev (filter s_valid (map (fun v => mkSit kind v 0) shards)) [].

Definition i_valid (it : iit) : bool := match i_live it with [] => false | _ => true end.
Definition i_cur (it : iit) : option (bytes * pos) :=
  match min_live (i_rev it) (i_live it) with Some m => s_head m | None => None end.

Definition i_rewind (it : iit) : iit :=
  mkIit (i_rev it) (map s_rewind (i_live it) ++ map s_rewind (i_old it)) [].

Definition i_seek (it : iit) (t : bytes) : iit :=
  if i_valid it then
    let moved := map (s_seek (i_rev it) t) (i_live it) in
    mkIit (i_rev it) (filter s_valid moved) (i_old it ++ filter (fun s => negb (s_valid s)) moved)
  else it.

Definition i_next (it : iit) : iit :=
  match min_live (i_rev it) (i_live it) with
  | None => it
  | Some m =>
    let rest := remove_min (i_rev it) (i_live it) in
    let m' := s_next m in
    if s_valid m' then mkIit (i_rev it) (m' :: rest) (i_old it)
    else mkIit (i_rev it) rest (i_old it ++ [m'])
  end.

(* ---- iterator.go: the prefix filter -------------------------------------------------------------- *)
Fixpoint has_prefix (p k : bytes) : bool :=
  match p, k with
  | [], _ => true
  | _ :: _, [] => false
  | a :: p', b :: k' => (a =? b) && has_prefix p' k'
  end.

(* skipToNext: advance while the current key lacks the prefix *)
Fixpoint skip_to_next (fuel : nat) (prefix : bytes) (it : iit) : iit :=
  match fuel with
  | O => it
  | S f =>
    match i_cur it with
    | Some (k, _) => if has_prefix prefix k then it else skip_to_next f prefix (i_next it)
    | None => it
    end
  end.

Definition total_len (it : iit) : nat :=
  fold_right (fun s n => (length (s_vals s) + n)%nat) O (i_live it ++ i_old it).

Record dbit := mkDbit { di_it : iit; di_prefix : bytes }.
Definition di_skip (d : dbit) : dbit :=
  match di_prefix d with
  | [] => d
  | _ => mkDbit (skip_to_next (S (total_len (di_it d))) (di_prefix d) (di_it d)) (di_prefix d)
  end.
(* NewIterator positions the new iterator on the first key with the prefix *)
Definition di_new (kind : ikind) (rev : bool) (prefix : bytes) (shards : list (list (bytes * pos))) : dbit :=
  di_skip (mkDbit (i_new kind rev shards) prefix).
Definition di_rewind (d : dbit) : dbit := di_skip (mkDbit (i_rewind (di_it d)) (di_prefix d)).
Definition di_seek (d : dbit) (t : bytes) : dbit := di_skip (mkDbit (i_seek (di_it d) t) (di_prefix d)).
Definition di_next (d : dbit) : dbit := di_skip (mkDbit (i_next (di_it d)) (di_prefix d)).
Definition di_valid (d : dbit) : bool := i_valid (di_it d).
Definition di_cur (d : dbit) : option (bytes * pos) := i_cur (di_it d).

(* the shards of an index: an arbitrary assignment of keys to [n] shards (xxhash & (n-1) in the
   implementation), each shard in iteration order *)
Definition shards_of (shf : bytes -> nat) (n : nat) (rev : bool) (ix : list (bytes * pos)) : list (list (bytes * pos)) :=
  let ordered := if rev then List.rev ix else ix in
  map (fun i => filter (fun x => Nat.eqb (Nat.modulo (shf (fst x)) n) i) ordered) (seq 0 n).

(* ---- index/sharded_index.go: the shard count and the point operations ---------------------------- *)
From Coq Require Import ZArith.

(* nextPowerOfTwo on Go's int (64-bit two's complement, >> arithmetic): the shard count that
   NewShardedIndex derives from the requested ShardNum.  A request below one yields one shard. *)
Definition next_power_of_two (cap : Z) : Z :=
  if (cap <? 1)%Z then 1%Z else
  let n := (cap - 1)%Z in
  let n := Z.lor n (Z.shiftr n 1) in
  let n := Z.lor n (Z.shiftr n 2) in
  let n := Z.lor n (Z.shiftr n 4) in
  let n := Z.lor n (Z.shiftr n 8) in
  let n := Z.lor n (Z.shiftr n 16) in
  if (Z.of_N maxShardCap <=? n)%Z then Z.of_N maxShardCap else (n + 1)%Z.

(* locateShard: hash & (cap-1) *)
Definition shard_of_hash (n : Z) (hash : N) : Z := Z.land (Z.of_N hash) (n - 1)%Z.

(* the shards as ordered maps; the shard of a key is (shf k) mod n, as in [shards_of] *)
Definition shard_ix (shf : bytes -> nat) (n : nat) (k : bytes) : nat := Nat.modulo (shf k) n.
Fixpoint upd_nth {A} (l : list A) (i : nat) (x : A) : list A :=
  match l, i with
  | [], _ => []
  | _ :: r, O => x :: r
  | y :: r, S j => y :: upd_nth r j x
  end.
Definition sh_get (shf : bytes -> nat) (n : nat) (shs : list index) (k : bytes) : option pos :=
  idx_get (nth (shard_ix shf n k) shs []) k.
Definition sh_put (shf : bytes -> nat) (n : nat) (shs : list index) (k : bytes) (p : pos) : list index * option pos :=
  let i := shard_ix shf n k in
  let '(s', old) := idx_put (nth i shs []) k p in (upd_nth shs i s', old).
Definition sh_del (shf : bytes -> nat) (n : nat) (shs : list index) (k : bytes) : list index * option pos :=
  let i := shard_ix shf n k in
  let '(s', old) := idx_del (nth i shs []) k in (upd_nth shs i s', old).
Definition sh_size (shs : list index) : nat := fold_right (fun s a => (length s + a)%nat) O shs.

(* index operations as a small language, run on the sharded structure and on one ordered map *)
Inductive ixop := IxPut (k : bytes) (p : pos) | IxGet (k : bytes) | IxDel (k : bytes) | IxSize.
Inductive ixres := IxPos (o : option pos) | IxNum (n : nat).
Definition sh_step shf n (shs : list index) (o : ixop) : list index * ixres :=
  match o with
  | IxPut k p => let '(s, old) := sh_put shf n shs k p in (s, IxPos old)
  | IxGet k => (shs, IxPos (sh_get shf n shs k))
  | IxDel k => let '(s, old) := sh_del shf n shs k in (s, IxPos old)
  | IxSize => (shs, IxNum (sh_size shs))
  end.
Definition flat_step (ix : index) (o : ixop) : index * ixres :=
  match o with
  | IxPut k p => let '(s, old) := idx_put ix k p in (s, IxPos old)
  | IxGet k => (ix, IxPos (idx_get ix k))
  | IxDel k => let '(s, old) := idx_del ix k in (s, IxPos old)
  | IxSize => (ix, IxNum (length ix))
  end.
Fixpoint sh_run shf n (shs : list index) (ops : list ixop) : list index * list ixres :=
  match ops with
  | [] => (shs, [])
  | o :: r => let '(s, x) := sh_step shf n shs o in let '(s', xs) := sh_run shf n s r in (s', x :: xs)
  end.
Fixpoint flat_run (ix : index) (ops : list ixop) : index * list ixres :=
  match ops with
  | [] => (ix, [])
  | o :: r => let '(s, x) := flat_step ix o in let '(s', xs) := flat_run s r in (s', x :: xs)
  end.
