(* Index.v — index/sharded_index.go IndexIterator over per-shard iterators (btree.go, skiplist.go,
   map.go) and iterator.go (prefix filter).  Model only.

   A shard iterator is a snapshot of its shard in iteration order (ascending, or descending when
   reverse) and a cursor.  The sharded iterator keeps the shard iterators that are valid ("live":
   the heap; only its minimum is observable) and those that ran out ("parked": oldItems). *)
From KV Require Import Bytes GenConsts Chunk Record Engine.
Open Scope N_scope.

Inductive ikind := KBTree | KSkipList | KHashMap.

Record sit := mkSit { s_kind : ikind; s_vals : list (bytes * pos); s_cur : nat }.

Definition s_valid (s : sit) : bool := Nat.ltb (s_cur s) (length (s_vals s)).
Definition s_head (s : sit) : option (bytes * pos) := nth_error (s_vals s) (s_cur s).

(* iteration order: ascending byte order, descending when reversed *)
Definition key_before (rev : bool) (a b : bytes) : bool := if rev then bytes_ltb b a else bytes_ltb a b.
(* [a] is at or after the seek target [t] in iteration order *)
Definition at_or_after (rev : bool) (t a : bytes) : bool := negb (key_before rev a t).

(* sort.Search / AscendGreaterOrEqual / DescendLessOrEqual: index of the first element at or after t *)
Fixpoint search (rev : bool) (t : bytes) (l : list (bytes * pos)) : nat :=
  match l with
  | [] => O
  | x :: r => if at_or_after rev t (fst x) then O else S (search rev t r)
  end.

Definition s_rewind (s : sit) : sit :=
  match s_kind s with
  | KBTree => if Nat.eqb (length (s_vals s)) 0 then s else mkSit (s_kind s) (s_vals s) 0
  | _ => mkSit (s_kind s) (s_vals s) 0
  end.
Definition s_seek (rev : bool) (t : bytes) (s : sit) : sit :=
  match s_kind s with
  | KBTree => if s_valid s then mkSit (s_kind s) (s_vals s) (search rev t (s_vals s)) else s
  | _ => mkSit (s_kind s) (s_vals s) (search rev t (s_vals s))
  end.
Definition s_next (s : sit) : sit :=
  match s_kind s with
  | KBTree => if s_valid s then mkSit (s_kind s) (s_vals s) (S (s_cur s)) else s
  | _ => mkSit (s_kind s) (s_vals s) (S (s_cur s))
  end.

(* ---- the sharded iterator ------------------------------------------------------------------------ *)
Record iit := mkIit { i_rev : bool; i_live : list sit; i_old : list sit }.

(* the live iterator whose current key comes first: heap.items[0] *)
Fixpoint min_live (rev : bool) (l : list sit) : option sit :=
  match l with
  | [] => None
  | s :: r =>
    match min_live rev r with
    | None => Some s
    | Some m =>
      match s_head s, s_head m with
      | Some a, Some b => if key_before rev (fst a) (fst b) then Some s else Some m
      | _, _ => Some m
      end
    end
  end.

(* remove the minimum from the list (heap.Pop) *)
Fixpoint remove_min (rev : bool) (l : list sit) : list sit :=
  match l with
  | [] => []
  | s :: r =>
    match min_live rev r with
    | None => []
    | Some m =>
      match s_head s, s_head m with
      | Some a, Some b => if key_before rev (fst a) (fst b) then r else s :: remove_min rev r
      | _, _ => s :: remove_min rev r
      end
    end
  end.

(* ShardedIndex.Iterator: one iterator per shard; only the valid ones (non-empty shards) are kept *)
Definition i_new (kind : ikind) (rev : bool) (shards : list (list (bytes * pos))) : iit :=
  mkIit rev (filter s_valid (map (fun v => mkSit kind v 0) shards)) [].

Definition i_valid (it : iit) : bool := match i_live it with [] => false | _ => true end.
Definition i_cur (it : iit) : option (bytes * pos) :=
  match min_live (i_rev it) (i_live it) with Some m => s_head m | None => None end.

Definition i_rewind (it : iit) : iit :=
  mkIit (i_rev it) (map s_rewind (i_live it) ++ map s_rewind (i_old it)) [].

Definition i_seek (it : iit) (t : bytes) : iit :=
  if i_valid it then
    let moved := map (s_seek (i_rev it) t) (i_live it) in
    mkIit (i_rev it) (filter s_valid moved) (i_old it ++ filter (fun s => negb (s_valid s)) moved)
  else it.

Definition i_next (it : iit) : iit :=
  match min_live (i_rev it) (i_live it) with
  | None => it
  | Some m =>
    let rest := remove_min (i_rev it) (i_live it) in
    let m' := s_next m in
    if s_valid m' then mkIit (i_rev it) (m' :: rest) (i_old it)
    else mkIit (i_rev it) rest (i_old it ++ [m'])
  end.

(* ---- iterator.go: the prefix filter -------------------------------------------------------------- *)
Fixpoint has_prefix (p k : bytes) : bool :=
  match p, k with
  | [], _ => true
  | _ :: _, [] => false
  | a :: p', b :: k' => (a =? b) && has_prefix p' k'
  end.

(* skipToNext: advance while the current key lacks the prefix *)
Fixpoint skip_to_next (fuel : nat) (prefix : bytes) (it : iit) : iit :=
  match fuel with
  | O => it
  | S f =>
    match i_cur it with
    | Some (k, _) => if has_prefix prefix k then it else skip_to_next f prefix (i_next it)
    | None => it
    end
  end.

Definition total_len (it : iit) : nat :=
  fold_right (fun s n => (length (s_vals s) + n)%nat) O (i_live it ++ i_old it).

Record dbit := mkDbit { di_it : iit; di_prefix : bytes }.
Definition di_skip (d : dbit) : dbit :=
  match di_prefix d with
  | [] => d
  | _ => mkDbit (skip_to_next (S (total_len (di_it d))) (di_prefix d) (di_it d)) (di_prefix d)
  end.
(* NewIterator positions the new iterator on the first key with the prefix *)
Definition di_new (kind : ikind) (rev : bool) (prefix : bytes) (shards : list (list (bytes * pos))) : dbit :=
  di_skip (mkDbit (i_new kind rev shards) prefix).
Definition di_rewind (d : dbit) : dbit := di_skip (mkDbit (i_rewind (di_it d)) (di_prefix d)).
Definition di_seek (d : dbit) (t : bytes) : dbit := di_skip (mkDbit (i_seek (di_it d) t) (di_prefix d)).
Definition di_next (d : dbit) : dbit := di_skip (mkDbit (i_next (di_it d)) (di_prefix d)).
Definition di_valid (d : dbit) : bool := i_valid (di_it d).
Definition di_cur (d : dbit) : option (bytes * pos) := i_cur (di_it d).

(* the shards of an index: an arbitrary assignment of keys to [n] shards (xxhash & (n-1) in the
   implementation), each shard in iteration order *)
Definition shards_of (shf : bytes -> nat) (n : nat) (rev : bool) (ix : list (bytes * pos)) : list (list (bytes * pos)) :=
  let ordered := if rev then List.rev ix else ix in
  map (fun i => filter (fun x => Nat.eqb (Nat.modulo (shf (fst x)) n) i) ordered) (seq 0 n).
