(* Engine.v — the DB state machine of db.go / batch.go / merge.go at record level.
   A data file is the list of its records with their positions; positions and sizes are
   computed by the chunk arithmetic of Chunk.v (frame) from the encoded lengths of Record.v,
   so they coincide with the byte-level model (proofs/FileProofs.v) and with the real files.
   Every operation returns its result and the list of I/O events it issues, in order.
   Model only: no proofs here. *)
From KV Require Import Bytes GenConsts Chunk Record.
Open Scope N_scope.

(* ---- configuration --------------------------------------------------------- *)
Record cfg := mkCfg {
  c_fsize : N;      (* Options.DataFileSize *)
  c_sync : N;       (* Options.SyncStrategy: sync_No | sync_Always | sync_Threshold *)
  c_bps : N;        (* Options.BytesPerSync *)
  c_io : N;         (* Options.FileIOType: io_Standard | io_MMap *)
}.
(* IndexType and ShardNum do not appear: the engine sees the index as one ordered map
   (Index.v proves that the sharded index refines it for every shard function and count). *)

(* ---- errors and results ------------------------------------------------------ *)
Inductive eerr :=
| EKeyIsEmpty | EKeyNotFound | EDataFileNotFound | EIndexUpdateFailed | EBatchCommitted
| EMergeOutputTooLarge | EMergeInProgress | EReadErr (e : err) | EBadPos | EDirCorrupted.

(* ---- I/O events ------------------------------------------------------------- *)
Inductive fname :=
| FData (id : N) | FHint | MData (id : N) | MHint | MMarker.
(* what a write carries (the driver prints only the file and the byte count; the content is
   what the crash-image construction of Crash.v replays) *)
Inductive wdata :=
| WRecs (rs : list (record * pos))      (* framed log records with their positions *)
| WHint (k : bytes) (p : pos)           (* one hint entry *)
| WMarker (id : N).                     (* the merge-finished marker *)
Inductive event :=
| EvCreate (f : fname) | EvOpen (f : fname)
| EvWrite (f : fname) (n : N) (w : wdata) | EvSync (f : fname) | EvClose (f : fname) | EvTrunc (f : fname) (n : N)
| EvMkdirData | EvMkdirMerge | EvRemove (f : fname) | EvRename (a b : fname) | EvRemoveAllMerge.

(* ---- files at record level ------------------------------------------------- *)
Record lfile := mkLf {
  lf_recs : list (record * pos);   (* complete records, in file order *)
  lf_size : N;        (* logical size = what DataFile.Size() / virtualSize is (writer position) *)
  lf_phys : N;        (* physical size on disk (>= lf_size while memory-mapped) *)
  lf_mapend : N;      (* MMap.endOff; 0 when not mapped *)
  lf_torn : bool;     (* bytes of an incomplete write (or never-written mapped zeros) follow the last record *)
  lf_durable : N;     (* length known to be on stable storage *)
}.
Definition lf_empty : lfile := mkLf [] 0 0 0 false 0.

Definition roundup_map (n : N) : N := ((n + mmapBlockSize - 1) / mmapBlockSize) * mmapBlockSize.

(* absolute end of a record *)
Definition pos_end (p : pos) : N := p_bid p * blockSize + p_off p + p_size p.
Fixpoint recs_end (rs : list (record * pos)) : N :=
  match rs with [] => 0 | [(_, p)] => pos_end p | _ :: r => recs_end r end.
(* where the sequential reader stands after the last complete record *)
Definition norm_abs (e : N) : N :=
  if blockSize <=? e mod blockSize + chunkHeaderSize then (e / blockSize + 1) * blockSize else e.

(* remap: extend the mapping (and the file) so that [base, base+n) is covered *)
Definition h_remap (nm : fname) (f : lfile) (base n : N) : lfile * list event :=
  if base + n <=? lf_mapend f then (f, []) else
  let e := roundup_map (base + n) in
  if lf_phys f <? e
  then (mkLf (lf_recs f) (lf_size f) e e (lf_torn f) (lf_durable f), [EvTrunc nm e])
  else (mkLf (lf_recs f) (lf_size f) (lf_phys f) e (lf_torn f) (lf_durable f), []).

(* OpenFile / NewReadWriter: the logical size is the physical size found *)
Definition h_open (io : N) (nm : fname) (exists_ : bool) (f : lfile) : lfile * list event :=
  let ev := if exists_ then EvOpen nm else EvCreate nm in
  let f0 := mkLf (lf_recs f) (lf_phys f) (lf_phys f) 0 (lf_torn f) (lf_durable f) in
  if io =? io_MMap then
    let '(f1, evs) := h_remap nm f0 (lf_phys f) mmapBlockSize in (f1, ev :: evs)
  else (f0, [ev]).

(* one ReadWriter.Write call of n bytes holding the records rs (already positioned) *)
Definition h_write (io : N) (nm : fname) (f : lfile) (rs : list (record * pos)) (n : N) : lfile * list event :=
  if io =? io_MMap then
    let '(f1, evs) := h_remap nm f (lf_size f) n in
    (mkLf (lf_recs f1 ++ rs) (lf_size f1 + n) (lf_phys f1) (lf_mapend f1) (lf_torn f1) (lf_durable f1),
     evs ++ [EvWrite nm n (WRecs rs)])
  else
    (mkLf (lf_recs f ++ rs) (lf_size f + n) (lf_phys f + n) 0 (lf_torn f) (lf_durable f), [EvWrite nm n (WRecs rs)]).

(* ReadWriter.Read of n bytes at off (only MMap has an effect: it may re-extend the mapping) *)
Definition h_read (io : N) (nm : fname) (f : lfile) (off n : N) : lfile * list event :=
  if io =? io_MMap then h_remap nm f off n else (f, []).

Definition h_sync (nm : fname) (f : lfile) : lfile * list event :=
  (mkLf (lf_recs f) (lf_size f) (lf_phys f) (lf_mapend f) (lf_torn f) (lf_size f), [EvSync nm]).

(* MMap.ResetFileSize *)
Definition h_reset (nm : fname) (f : lfile) : lfile * list event :=
  (mkLf (lf_recs f) (lf_size f) (lf_size f) 0 (lf_torn f) (lf_durable f), [EvTrunc nm (lf_size f)]).

Definition h_close (io : N) (nm : fname) (f : lfile) : lfile * list event :=
  if io =? io_MMap then
    (mkLf (lf_recs f) (lf_size f) (lf_size f) 0 (lf_torn f) (lf_size f),
     [EvSync nm; EvTrunc nm (lf_size f); EvClose nm])
  else
    (* standard I/O: the physical size is the logical size at every moment *)
    (mkLf (lf_recs f) (lf_size f) (lf_size f) 0 (lf_torn f) (lf_size f), [EvSync nm; EvClose nm]).

(* writer position of a file *)
Definition lf_bid (f : lfile) : N := lf_size f / blockSize.
Definition lf_bsz (f : lfile) : N := lf_size f mod blockSize.

(* WriteLogRecord / writeSingle: frame one record at the writer position *)
Definition rec_len (r : record) : N := encoded_len (len (r_key r)) (len (r_value r)) (r_batch r).
Definition lf_append (io : N) (nm : fname) (fid : N) (f : lfile) (r : record) : lfile * pos * list event :=
  let '(p, bid', bsz') := frame fid (lf_bid f) (lf_bsz f) (rec_len r) in
  let n := bid' * blockSize + bsz' - lf_size f in
  let '(f', evs) := h_write io nm f [(r, p)] n in
  (f', p, evs).

(* writeAll: several records, one Write call *)
Fixpoint frame_all (fid bid bsz : N) (rs : list record) : list (record * pos) * N * N :=
  match rs with
  | [] => ([], bid, bsz)
  | r :: rest =>
    let '(p, bid', bsz') := frame fid bid bsz (rec_len r) in
    let '(out, bid'', bsz'') := frame_all fid bid' bsz' rest in
    ((r, p) :: out, bid'', bsz'')
  end.
Definition lf_append_all (io : N) (nm : fname) (fid : N) (f : lfile) (rs : list record)
  : lfile * list pos * list event :=
  let '(out, bid', bsz') := frame_all fid (lf_bid f) (lf_bsz f) rs in
  let n := bid' * blockSize + bsz' - lf_size f in
  let '(f', evs) := h_write io nm f out n in
  (f', map snd out, evs).

(* ReadRecordValue at record level: the record whose position starts at (bid, off).
   (FileProofs.read_written: the byte-level reader returns exactly this record.) *)
Fixpoint lf_lookup (rs : list (record * pos)) (bid off : N) : option record :=
  match rs with
  | [] => None
  | (r, p) :: rest => if (p_bid p =? bid) && (p_off p =? off) then Some r else lf_lookup rest bid off
  end.
(* number of bytes the random reader touches: whole blocks from the record's block on *)
Definition read_span (f : lfile) (p : pos) : N * N :=
  (p_bid p * blockSize, if lf_size f - p_bid p * blockSize <=? blockSize then lf_size f - p_bid p * blockSize else blockSize).

(* ---- index: one ordered map key -> position ------------------------------------ *)
Fixpoint bytes_ltb (a b : bytes) : bool :=
  match a, b with
  | _, [] => false
  | [], _ :: _ => true
  | x :: a', y :: b' => if x <? y then true else if y <? x then false else bytes_ltb a' b'
  end.
(* an ordered association list keyed by byte strings (ascending key order) *)
Section AMap.
Context {V : Type}.
Definition amap := list (bytes * V).
Fixpoint amap_get (m : amap) (k : bytes) : option V :=
  match m with
  | [] => None
  | (k', v) :: r => if bytes_eqb k k' then Some v else amap_get r k
  end.
Fixpoint amap_put (m : amap) (k : bytes) (v : V) : amap * option V :=
  match m with
  | [] => ([(k, v)], None)
  | (k', v') :: r =>
    if bytes_eqb k k' then ((k, v) :: r, Some v')
    else if bytes_ltb k k' then ((k, v) :: (k', v') :: r, None)
    else let '(r', o) := amap_put r k v in ((k', v') :: r', o)
  end.
Fixpoint amap_del (m : amap) (k : bytes) : amap * option V :=
  match m with
  | [] => ([], None)
  | (k', v') :: r =>
    if bytes_eqb k k' then (r, Some v')
    else let '(r', o) := amap_del r k in ((k', v') :: r', o)
  end.
End AMap.
Arguments amap V : clear implicits.

Definition index := amap pos.
Definition idx_get (ix : index) (k : bytes) : option pos := amap_get ix k.
Definition idx_put (ix : index) (k : bytes) (p : pos) : index * option pos := amap_put ix k p.
Definition idx_del (ix : index) (k : bytes) : index * option pos := amap_del ix k.

(* hint file: (key, position in the merged files) entries, framed like records *)
Record hfile := mkHf { hf_recs : list (bytes * pos); hf_size : N; hf_phys : N }.
Definition hf_empty : hfile := mkHf [] 0 0.
Definition hint_len (k : bytes) (p : pos) : N :=
  uvarint_len (p_fid p) + uvarint_len (p_bid p) + uvarint_len (p_off p) + uvarint_len (p_size p) + len k.

(* ---- the database ---------------------------------------------------------------- *)
Record db := mkDb {
  d_cfg : cfg;
  d_active_id : N;
  d_active : lfile;
  d_older : list (N * lfile);      (* ascending file id *)
  d_index : index;
  d_bytes_write : N;
  d_total : N;
  d_reclaim : N;
}.

(* what is on disk besides the files the DB has open *)
Record mdir := mkMdir { m_files : list (N * lfile); m_hint : option hfile; m_marker : option N }.
(* a marker file that exists but is unreadable (empty / torn) is [Some 0] *)
Record disk := mkDisk {
  k_data : list (N * lfile);                       (* data files of the data directory, ascending id *)
  k_hint : option hfile;                           (* <dir>/000000000.hint *)
  k_merge : option mdir;                           (* <dir>-merge *)
}.

Definition set_active (d : db) (id : N) (f : lfile) : db :=
  mkDb (d_cfg d) id f (d_older d) (d_index d) (d_bytes_write d) (d_total d) (d_reclaim d).
Definition set_counters (d : db) (bw tot rec : N) : db :=
  mkDb (d_cfg d) (d_active_id d) (d_active d) (d_older d) (d_index d) bw tot rec.
Definition set_index (d : db) (ix : index) : db :=
  mkDb (d_cfg d) (d_active_id d) (d_active d) (d_older d) ix (d_bytes_write d) (d_total d) (d_reclaim d).
Definition set_older (d : db) (o : list (N * lfile)) : db :=
  mkDb (d_cfg d) (d_active_id d) (d_active d) o (d_index d) (d_bytes_write d) (d_total d) (d_reclaim d).

Fixpoint older_get (o : list (N * lfile)) (id : N) : option lfile :=
  match o with [] => None | (i, f) :: r => if i =? id then Some f else older_get r id end.
Fixpoint older_set (o : list (N * lfile)) (id : N) (f : lfile) : list (N * lfile) :=
  match o with
  | [] => [(id, f)]
  | (i, g) :: r => if i =? id then (id, f) :: r else if id <? i then (id, f) :: (i, g) :: r
                   else (i, g) :: older_set r id f
  end.

Definition io_of (d : db) : N := c_io (d_cfg d).

(* db.sync(): flush the active file, make it read-only, create the next active file *)
Definition db_rotate (d : db) : db * list event :=
  let '(a, ev1) := h_sync (FData (d_active_id d)) (d_active d) in
  let id' := d_active_id d + 1 in
  let '(n, ev2) := h_open (io_of d) (FData id') false lf_empty in
  (mkDb (d_cfg d) id' n (older_set (d_older d) (d_active_id d) a) (d_index d) 0 (d_total d) (d_reclaim d),
   ev1 ++ ev2).

(* appendLogRecord *)
Definition db_append (d : db) (r : record) : db * pos * list event :=
  let est := disk_size_estimate (len (r_key r)) (len (r_value r)) in
  let '(d1, ev1) := if c_fsize (d_cfg d) <? lf_size (d_active d) + est then db_rotate d else (d, []) in
  let '(a, p, ev2) := lf_append (io_of d1) (FData (d_active_id d1)) (d_active_id d1) (d_active d1) r in
  let tot := d_total d1 + p_size p in
  let bw := d_bytes_write d1 + p_size p in
  let s := c_sync (d_cfg d1) in
  if (s =? sync_Always) || ((s =? sync_Threshold) && (c_bps (d_cfg d1) <=? bw)) then
    let '(a', ev3) := h_sync (FData (d_active_id d1)) a in
    (set_counters (set_active d1 (d_active_id d1) a') 0 tot (d_reclaim d1), p, ev1 ++ ev2 ++ ev3)
  else
    (set_counters (set_active d1 (d_active_id d1) a) bw tot (d_reclaim d1), p, ev1 ++ ev2).

Definition add_reclaim (d : db) (n : N) : db :=
  set_counters d (d_bytes_write d) (d_total d) (d_reclaim d + n).
Definition opt_size (o : option pos) : N := match o with Some p => p_size p | None => 0 end.

(* Put *)
Definition db_put (d : db) (k v : bytes) : db * option eerr * list event :=
  if len k =? 0 then (d, Some EKeyIsEmpty, []) else
  let '(d1, p, evs) := db_append d (mkRec rt_Normal k v 0) in
  let '(ix, old) := idx_put (d_index d1) k p in
  (add_reclaim (set_index d1 ix) (opt_size old), None, evs).

(* Delete *)
Definition db_delete (d : db) (k : bytes) : db * option eerr * list event :=
  if len k =? 0 then (d, Some EKeyIsEmpty, []) else
  match idx_get (d_index d) k with
  | None => (d, None, [])
  | Some _ =>
    let '(d1, p, evs) := db_append d (mkRec rt_Deleted k [] 0) in
    let d2 := add_reclaim d1 (p_size p) in
    let '(ix, old) := idx_del (d_index d2) k in
    match old with
    | Some o => (add_reclaim (set_index d2 ix) (p_size o), None, evs)
    | None => (set_index d2 ix, Some EIndexUpdateFailed, evs)
    end
  end.

(* getValueByPosition *)
Definition db_read (d : db) (p : pos) : db * (bytes + eerr) * list event :=
  if p_fid p =? d_active_id d then
    let sp := read_span (d_active d) p in
    let '(a, evs) := h_read (io_of d) (FData (d_active_id d)) (d_active d) (fst sp) (snd sp) in
    match lf_lookup (lf_recs a) (p_bid p) (p_off p) with
    | Some r => (set_active d (d_active_id d) a, inl (r_value r), evs)
    | None => (set_active d (d_active_id d) a, inr EBadPos, evs)
    end
  else
    match older_get (d_older d) (p_fid p) with
    | None => (d, inr EDataFileNotFound, [])
    | Some f =>
      let sp := read_span f p in
      let '(f', evs) := h_read (io_of d) (FData (p_fid p)) f (fst sp) (snd sp) in
      let d' := set_older d (older_set (d_older d) (p_fid p) f') in
      match lf_lookup (lf_recs f') (p_bid p) (p_off p) with
      | Some r => (d', inl (r_value r), evs)
      | None => (d', inr EBadPos, evs)
      end
    end.

(* Get *)
Definition db_get (d : db) (k : bytes) : db * (bytes + eerr) * list event :=
  if len k =? 0 then (d, inr EKeyIsEmpty, []) else
  match idx_get (d_index d) k with
  | None => (d, inr EKeyNotFound, [])
  | Some p => db_read d p
  end.

(* ListKeys: the index in ascending key order *)
Definition db_list_keys (d : db) : list bytes := map fst (d_index d).

(* Fold (with a callback that always continues): every key with its value, in key order *)
Fixpoint db_fold_aux (d : db) (ix : index) : db * (list (bytes * bytes) + eerr) * list event :=
  match ix with
  | [] => (d, inl [], [])
  | (k, p) :: r =>
    let '(d1, v, ev1) := db_read d p in
    match v with
    | inr e => (d1, inr e, ev1)
    | inl val =>
      let '(d2, rest, ev2) := db_fold_aux d1 r in
      match rest with
      | inl l => (d2, inl ((k, val) :: l), ev1 ++ ev2)
      | inr e => (d2, inr e, ev1 ++ ev2)
      end
    end
  end.
Definition db_fold (d : db) := db_fold_aux d (d_index d).
(* Fold with a callback that returns false at its n-th invocation: the first n items are read and delivered *)
Definition db_fold_n (d : db) (n : nat) := db_fold_aux d (firstn n (d_index d)).

(* Stat: KeyNum, DataFileNum, ReclaimableSize, DiskSize *)
Definition db_stat (d : db) : N * N * N * N :=
  (len (d_index d), len (d_older d) + 1, d_reclaim d, d_total d).

(* Sync *)
Definition db_sync (d : db) : db * list event :=
  let '(a, evs) := h_sync (FData (d_active_id d)) (d_active d) in (set_active d (d_active_id d) a, evs).

(* ---- batches ------------------------------------------------------------------- *)
Record batch := mkBatch {
  b_staged : list record;     (* in issue order; at most one record per key *)
  b_cached : N;               (* cachedDataSize *)
  b_committed : bool;
  b_sync : bool;              (* BatchOptions.Sync *)
  b_id : N;                   (* snowflake id (an input of the model) *)
}.
Definition new_batch (sync : bool) (id : N) : batch := mkBatch [] 0 false sync id.

Fixpoint staged_find (st : list record) (k : bytes) : option record :=
  match st with [] => None | r :: rest => if bytes_eqb (r_key r) k then Some r else staged_find rest k end.
Fixpoint staged_update (st : list record) (k : bytes) (f : record -> record) : list record :=
  match st with
  | [] => []
  | r :: rest => if bytes_eqb (r_key r) k then f r :: rest else r :: staged_update rest k f
  end.

(* index and counter updates after a flush (flushStaged, second loop) *)
Fixpoint apply_staged (d : db) (rs : list (record * pos)) : db :=
  match rs with
  | [] => d
  | (r, p) :: rest =>
    let d1 := if r_type r =? rt_Deleted then
                let '(ix, old) := idx_del (d_index d) (r_key r) in
                add_reclaim (add_reclaim (set_index d ix) (p_size p)) (opt_size old)
              else
                let '(ix, old) := idx_put (d_index d) (r_key r) p in
                add_reclaim (set_index d ix) (opt_size old) in
    apply_staged (set_counters d1 (d_bytes_write d1) (d_total d1 + p_size p) (d_reclaim d1)) rest
  end.

(* flushStaged *)
Definition batch_flush (d : db) (b : batch) : db * batch * list event :=
  let sz := lf_size (d_active d) in
  let '(d1, ev1) := if (0 <? sz) && (c_fsize (d_cfg d) <? sz + b_cached b + maxFinRecord)
                    then db_rotate d else (d, []) in
  let tagged := map (fun r => mkRec (r_type r) (r_key r) (r_value r) (b_id b)) (b_staged b) in
  let '(a, ps, ev2) := lf_append_all (io_of d1) (FData (d_active_id d1)) (d_active_id d1) (d_active d1) tagged in
  let '(a', ev3) := if b_sync b then h_sync (FData (d_active_id d1)) a else (a, []) in
  let d2 := apply_staged (set_active d1 (d_active_id d1) a') (combine tagged ps) in
  (d2, mkBatch [] 0 (b_committed b) (b_sync b) (b_id b), ev1 ++ ev2 ++ ev3).

(* flushStagedAndUpdateFile *)
Definition batch_flush_rotate (d : db) (b : batch) : db * batch * list event :=
  let '(d1, b1, ev1) := batch_flush d b in
  let '(d2, ev2) := db_rotate d1 in
  (d2, b1, ev1 ++ ev2).

Definition with_staged (b : batch) (st : list record) (cached : N) : batch :=
  mkBatch st cached (b_committed b) (b_sync b) (b_id b).

(* Batch.Put *)
Definition batch_put (d : db) (b : batch) (k v : bytes) : db * batch * option eerr * list event :=
  if len k =? 0 then (d, b, Some EKeyIsEmpty, []) else
  if b_committed b then (d, b, Some EBatchCommitted, []) else
  let fs := c_fsize (d_cfg d) in
  match staged_find (b_staged b) k with
  | None =>
    let size := disk_size_estimate (len k) (len v) in
    let '(d1, b1, evs) := if fs <? b_cached b + size + maxFinRecord then batch_flush_rotate d b else (d, b, []) in
    (d1, with_staged b1 (b_staged b1 ++ [mkRec rt_Normal k v 0]) (b_cached b1 + size), None, evs)
  | Some r =>
    let old := disk_size_estimate (len (r_key r)) (len (r_value r)) in
    let new := disk_size_estimate (len k) (len v) in
    if fs <? b_cached b + new - old + maxFinRecord then
      let '(d1, b1, evs) := batch_flush_rotate d b in
      (d1, with_staged b1 (b_staged b1 ++ [mkRec rt_Normal k v 0]) (b_cached b1 + new), None, evs)
    else
      (d, with_staged b (staged_update (b_staged b) k (fun r => mkRec rt_Normal (r_key r) v 0))
                      (b_cached b + new - old), None, [])
  end.

(* Batch.Put while the operating system refuses the write of an overflow flush: flushStaged rotates first when the
   active file cannot take the staged records, then FlushStaged reports the error - nothing reached the file or the
   index, the staged records stay staged, the new record is not staged.  Some true: the flush was due and failed;
   Some false is never returned; None: no flush was due, the call is an ordinary Put. *)
Definition batch_put_refused (d : db) (b : batch) (k v : bytes) : option (db * list event) :=
  if len k =? 0 then None else
  if b_committed b then None else
  let fs := c_fsize (d_cfg d) in
  let due :=
    match staged_find (b_staged b) k with
    | None => fs <? b_cached b + disk_size_estimate (len k) (len v) + maxFinRecord
    | Some r => fs <? b_cached b + disk_size_estimate (len k) (len v)
                      - disk_size_estimate (len (r_key r)) (len (r_value r)) + maxFinRecord
    end in
  if due then
    let sz := lf_size (d_active d) in
    Some (if (0 <? sz) && (fs <? sz + b_cached b + maxFinRecord) then db_rotate d else (d, []))
  else None.

(* Batch.Put whose overflow flush succeeds while the Sync of the rotation that follows is refused: the staged records are
   in the file and in the index (batch_flush), the active file stays, the new record is not staged.  None: no flush due. *)
Definition batch_put_sync_refused (d : db) (b : batch) (k v : bytes) : option (db * batch * list event) :=
  match batch_put_refused d b k v with
  | None => None
  | Some _ => Some (batch_flush d b)
  end.

(* Batch.Get *)
Definition batch_get (d : db) (b : batch) (k : bytes) : db * (bytes + eerr) * list event :=
  if len k =? 0 then (d, inr EKeyIsEmpty, []) else
  if b_committed b then (d, inr EBatchCommitted, []) else
  match staged_find (b_staged b) k with
  | Some r => if r_type r =? rt_Deleted then (d, inr EKeyNotFound, []) else (d, inl (r_value r), [])
  | None =>
    match idx_get (d_index d) k with
    | None => (d, inr EKeyNotFound, [])
    | Some p => db_read d p
    end
  end.

(* Batch.Delete *)
Definition batch_delete (d : db) (b : batch) (k : bytes) : db * batch * option eerr * list event :=
  if len k =? 0 then (d, b, Some EKeyIsEmpty, []) else
  if b_committed b then (d, b, Some EBatchCommitted, []) else
  match staged_find (b_staged b) k with
  | Some r =>
    (d, with_staged b (staged_update (b_staged b) k (fun r => mkRec rt_Deleted (r_key r) [] 0))
                    (b_cached b + len (r_value r)), None, [])
  | None =>
    match idx_get (d_index d) k with
    | None => (d, b, None, [])
    | Some _ =>
      let size := disk_size_estimate (len k) 0 in
      let '(d1, b1, evs) := if c_fsize (d_cfg d) <? b_cached b + size + maxFinRecord
                            then batch_flush_rotate d b else (d, b, []) in
      (d1, with_staged b1 (b_staged b1 ++ [mkRec rt_Deleted k [] 0]) (b_cached b1 + size), None, evs)
    end
  end.

(* decimal digits of the batch id: the key of the batch-finished record (snowflake ID.Bytes()) *)
Fixpoint dec_digits_fuel (fuel : nat) (x : N) (acc : bytes) : bytes :=
  match fuel with
  | O => acc
  | S f => let acc' := (48 + x mod 10) :: acc in
           if x / 10 =? 0 then acc' else dec_digits_fuel f (x / 10) acc'
  end.
Definition dec_digits (x : N) : bytes := dec_digits_fuel 25 x [].

(* Batch.Commit *)
Definition batch_commit (d : db) (b : batch) : db * batch * option eerr * list event :=
  if b_committed b then (d, b, Some EBatchCommitted, []) else
  let bc := mkBatch (b_staged b) (b_cached b) true (b_sync b) (b_id b) in
  match b_staged b with
  | [] => (d, bc, None, [])
  | _ =>
    let '(d1, b1, ev1) := batch_flush d bc in
    let seal := mkRec rt_BatchFinished (dec_digits (b_id b)) [] (b_id b) in
    let '(a, _, ev2) := lf_append (io_of d1) (FData (d_active_id d1)) (d_active_id d1) (d_active d1) seal in
    let '(a', ev3) := if b_sync b then h_sync (FData (d_active_id d1)) a else (a, []) in
    (set_active d1 (d_active_id d1) a', b1, None, ev1 ++ ev2 ++ ev3)
  end.

(* Commit while the operating system refuses the write of the staged records (no rotation before it): FlushStaged
   reports the error before anything reached the file or the index; the batch is finished and holds nothing *)
Definition batch_refuse (b : batch) : batch := mkBatch [] 0 true (b_sync b) (b_id b).

(* Commit of a batch pieces of which were flushed and that holds nothing now (the Put that followed the flush failed):
   the batch-finished record is still owed - without it the flushed pieces would vanish at the next restart *)
Definition batch_commit_flushed (d : db) (b : batch) : db * batch * option eerr * list event :=
  if b_committed b then (d, b, Some EBatchCommitted, []) else
  let bc := mkBatch (b_staged b) (b_cached b) true (b_sync b) (b_id b) in
  let '(d1, b1, ev1) := batch_flush d bc in
  let seal := mkRec rt_BatchFinished (dec_digits (b_id b)) [] (b_id b) in
  let '(a, _, ev2) := lf_append (io_of d1) (FData (d_active_id d1)) (d_active_id d1) (d_active d1) seal in
  let '(a', ev3) := if b_sync b then h_sync (FData (d_active_id d1)) a else (a, []) in
  (set_active d1 (d_active_id d1) a', b1, None, ev1 ++ ev2 ++ ev3).

(* ---- recovery: loadIndexFromDataFiles -------------------------------------------- *)
(* updateIndex *)
Definition update_index (d : db) (k : bytes) (ty : N) (p : pos) : db :=
  let d0 := set_counters d (d_bytes_write d) (d_total d + p_size p) (d_reclaim d) in
  if ty =? rt_Deleted then
    let '(ix, old) := idx_del (d_index d0) k in
    add_reclaim (add_reclaim (set_index d0 ix) (p_size p)) (opt_size old)
  else
    let '(ix, old) := idx_put (d_index d0) k p in
    add_reclaim (set_index d0 ix) (opt_size old).

Definition txns := list (N * list (record * pos)).
Fixpoint txn_get (t : txns) (id : N) : list (record * pos) :=
  match t with [] => [] | (i, l) :: r => if i =? id then l else txn_get r id end.
Fixpoint txn_add (t : txns) (id : N) (e : record * pos) : txns :=
  match t with
  | [] => [(id, [e])]
  | (i, l) :: r => if i =? id then (i, l ++ [e]) :: r else (i, l) :: txn_add r id e
  end.
Fixpoint txn_del (t : txns) (id : N) : txns :=
  match t with [] => [] | (i, l) :: r => if i =? id then r else (i, l) :: txn_del r id end.

Fixpoint replay_recs (d : db) (t : txns) (rs : list (record * pos)) : db * txns :=
  match rs with
  | [] => (d, t)
  | (r, p) :: rest =>
    if r_batch r =? 0 then replay_recs (update_index d (r_key r) (r_type r) p) t rest
    else if r_type r =? rt_BatchFinished then
      let d' := fold_left (fun acc e => update_index acc (r_key (fst e)) (r_type (fst e)) (snd e))
                          (txn_get t (r_batch r)) d in
      replay_recs d' (txn_del t (r_batch r)) rest
    else replay_recs d (txn_add t (r_batch r) (r, p)) rest
  end.

(* the files with id >= from, ascending, each scanned to its end (EOF or torn tail) *)
Fixpoint replay_files (d : db) (t : txns) (files : list (N * lfile)) (from : N) : db * txns :=
  match files with
  | [] => (d, t)
  | (id, f) :: rest =>
    if id <? from then replay_files d t rest from
    else let '(d', t') := replay_recs d t (lf_recs f) in replay_files d' t' rest from
  end.

(* ---- Open -------------------------------------------------------------------------- *)
Fixpoint open_all (io : N) (files : list (N * lfile)) : list (N * lfile) * list event :=
  match files with
  | [] => ([], [])
  | (id, f) :: rest =>
    let '(f', ev1) := h_open io (FData id) true f in
    let '(rest', ev2) := open_all io rest in
    ((id, f') :: rest', ev1 ++ ev2)
  end.

Fixpoint split_last {A} (l : list A) : option (list A * A) :=
  match l with
  | [] => None
  | [x] => Some ([], x)
  | x :: r => match split_last r with Some (i, z) => Some (x :: i, z) | None => None end
  end.

Fixpoint files_get (fs : list (N * lfile)) (id : N) : option lfile := older_get fs id.
Fixpoint files_del (fs : list (N * lfile)) (id : N) : list (N * lfile) :=
  match fs with [] => [] | (i, f) :: r => if i =? id then r else (i, f) :: files_del r id end.

(* loadMergeFiles: adoption of a finished merge; returns the new disk, the marker id, events *)
Fixpoint count_rewritten (mfiles : list (N * lfile)) (fuel : nat) (id mergeID acc : N) : N :=
  match fuel with
  | O => acc
  | S f => if mergeID <=? id then acc else
           count_rewritten mfiles f (id + 1) mergeID
             (match files_get mfiles id with Some _ => id + 1 | None => acc end)
  end.
Fixpoint remove_originals (data : list (N * lfile)) (fuel : nat) (id mergeID : N)
  : list (N * lfile) * list event :=
  match fuel with
  | O => (data, [])
  | S f => if mergeID <=? id then (data, []) else
           let '(data', evs) := remove_originals (files_del data id) f (id + 1) mergeID in
           (data', EvRemove (FData id) :: evs)
  end.
Fixpoint rename_rewritten (data mfiles : list (N * lfile)) (fuel : nat) (id n : N)
  : list (N * lfile) * list (N * lfile) * list event :=
  match fuel with
  | O => (data, mfiles, [])
  | S f => if n <=? id then (data, mfiles, []) else
           match files_get mfiles id with
           | None => rename_rewritten data mfiles f (id + 1) n
           | Some g =>
             let '(data', m', evs) := rename_rewritten (older_set data id g) (files_del mfiles id) f (id + 1) n in
             (data', m', EvRename (MData id) (FData id) :: evs)
           end
  end.

Definition load_merge_files (k : disk) : disk * N * list event :=
  match k_merge k with
  | None => (k, 0, [])
  | Some m =>
    (* getNonMergeFileID opens (creating if absent) and closes the marker with standard I/O *)
    let ev0 := [match m_marker m with Some _ => EvOpen MMarker | None => EvCreate MMarker end;
                EvSync MMarker; EvClose MMarker] in
    let mid := match m_marker m with Some x => x | None => 0 end in
    let m0 := mkMdir (m_files m) (m_hint m) (Some mid) in
    if mid =? 0 then (mkDisk (k_data k) (k_hint k) (Some m0), 0, ev0) else
    let fuel := S (N.to_nat mid) in
    let n := count_rewritten (m_files m) fuel 0 mid 0 in
    let '(data1, ev1) := if 0 <? n then remove_originals (k_data k) fuel n mid else (k_data k, []) in
    let '(data2, mf2, ev2) := if 0 <? n then rename_rewritten data1 (m_files m) fuel 0 n
                              else (data1, m_files m, []) in
    let '(hint', ev3) := match m_hint m with
                         | Some h => (Some h, [EvRename MHint FHint])
                         | None => (k_hint k, [])
                         end in
    (mkDisk data2 hint' None, mid, ev0 ++ ev1 ++ ev2 ++ ev3 ++ [EvRemoveAllMerge])
  end.

(* loadIndexFromHintFile *)
Fixpoint load_hint (d : db) (h : list (bytes * pos)) (hinted : N) : db * N :=
  match h with
  | [] => (d, hinted)
  | (k, p) :: r =>
    let '(ix, _) := idx_put (d_index d) k p in
    let d' := set_counters (set_index d ix) (d_bytes_write d) (d_total d + p_size p) (d_reclaim d) in
    load_hint d' r (if hinted <? p_fid p + 1 then p_fid p + 1 else hinted)
  end.

Inductive open_res := OpenOk (d : db) (k : disk) | OpenErr (e : eerr) (k : disk).

Definition db_open (c : cfg) (k : disk) : open_res * list event :=
  let '(k1, mid, ev1) := load_merge_files k in
  let '(files, ev2) := open_all (c_io c) (k_data k1) in
  (* hint file: opened (created if absent) only when a merge was adopted; never closed *)
  let '(hintrecs, k2, ev3) :=
    if 0 <? mid then
      let h := match k_hint k1 with Some h => h | None => hf_empty end in
      let ev := match k_hint k1 with Some _ => EvOpen FHint | None => EvCreate FHint end in
      if c_io c =? io_MMap then
        let e := roundup_map (hf_phys h + mmapBlockSize) in
        (hf_recs h, mkDisk (k_data k1) (Some (mkHf (hf_recs h) (hf_phys h) e)) (k_merge k1), [ev; EvTrunc FHint e])
      else (hf_recs h, mkDisk (k_data k1) (Some h) (k_merge k1), [ev])
    else ([], k1, []) in
  let d0 := mkDb c 0 lf_empty [] [] 0 0 0 in
  let '(d1, hinted) := load_hint d0 hintrecs 0 in
  let from := if 0 <? mid then (if hinted <? mid then hinted else mid) else 0 in
  (* active file: the data file with the largest id, or a fresh 0.data *)
  let '(d2, ev4) :=
    match split_last files with
    | Some (older, (aid, af)) =>
        (mkDb c aid af older (d_index d1) 0 (d_total d1) (d_reclaim d1), [])
    | None =>
        let '(n, ev) := h_open (c_io c) (FData 0) false lf_empty in
        (mkDb c 0 n [] (d_index d1) 0 (d_total d1) (d_reclaim d1), ev)
    end in
  let '(d3, _) := replay_files d2 [] files from in
  (* a torn tail in the active file: rotate *)
  let torn_active := match split_last files with
                     | Some (_, (aid, af)) => (from <=? aid) && lf_torn af
                     | None => false end in
  let '(d4, ev5) := if torn_active then db_rotate d3 else (d3, []) in
  (OpenOk d4 (mkDisk [] (k_hint k2) (k_merge k2)), EvMkdirData :: ev1 ++ ev2 ++ ev3 ++ ev4 ++ ev5).

(* checkOptions: what Open demands of its configuration before it touches anything (directory, lock, files) *)
Record raw_opts := mkRaw {
  o_dir_empty : bool;      (* DirPath == "" *)
  o_fsize_pos : bool;      (* DataFileSize > 0 *)
  o_ratio_ok : bool;       (* 0 <= DataFileMergeRatio <= 1 *)
  o_bps : N;               (* BytesPerSync *)
  o_sync : N;              (* SyncStrategy *)
  o_index : N;             (* IndexType *)
}.
Definition check_options (o : raw_opts) : bool :=
  negb (o_dir_empty o) && o_fsize_pos o && o_ratio_ok o && (o_bps o <=? 16777216) &&
  negb ((o_sync o =? sync_Threshold) && (o_bps o =? 0)) &&
  ((o_index o =? idx_BTree) || (o_index o =? idx_SkipList) || (o_index o =? idx_HashMap)).

(* ---- Close ----------------------------------------------------------------------- *)
Fixpoint close_all (io : N) (files : list (N * lfile)) : list (N * lfile) * list event :=
  match files with
  | [] => ([], [])
  | (id, f) :: rest =>
    let '(f', ev1) := h_close io (FData id) f in
    let '(rest', ev2) := close_all io rest in
    ((id, f') :: rest', ev1 ++ ev2)
  end.
(* the files of the open database, ascending id *)
Definition db_files (d : db) : list (N * lfile) := older_set (d_older d) (d_active_id d) (d_active d).

(* Close: active file first, then the older files (the real iteration order over the map of
   older files is unspecified; the harness compares the events of a Close as a multiset) *)
Definition db_close (d : db) (k : disk) : disk * list event :=
  let '(a, ev1) := h_close (io_of d) (FData (d_active_id d)) (d_active d) in
  let '(o, ev2) := close_all (io_of d) (d_older d) in
  (mkDisk (older_set o (d_active_id d) a) (k_hint k) (k_merge k), ev1 ++ ev2).

(* ---- Backup ------------------------------------------------------------------------ *)
Fixpoint reset_all (files : list (N * lfile)) : list (N * lfile) * list event :=
  match files with
  | [] => ([], [])
  | (id, f) :: rest =>
    let '(f', ev1) := h_reset (FData id) f in
    let '(rest', ev2) := reset_all rest in
    ((id, f') :: rest', ev1 ++ ev2)
  end.
(* the copy holds every file of the data directory with its physical content *)
Definition db_backup (d : db) (k : disk) : db * disk * list event :=
  if io_of d =? io_MMap then
    let '(a, ev1) := h_reset (FData (d_active_id d)) (d_active d) in
    let '(o, ev2) := reset_all (d_older d) in
    let d' := set_older (set_active d (d_active_id d) a) o in
    (d', mkDisk (db_files d') (k_hint k) None, ev1 ++ ev2)
  else (d, mkDisk (db_files d) (k_hint k) None, []).

(* ---- Merge ------------------------------------------------------------------------- *)
(* the merge output: a little DB of its own (mergeDB) with sync strategy No *)
Record mstate := mkMs {
  ms_active_id : N; ms_active : lfile; ms_older : list (N * lfile);
  ms_hint : hfile;
}.

(* mergeDB.appendLogRecord (no sync, counters irrelevant) *)
Definition ms_append (c : cfg) (m : mstate) (r : record) : mstate * pos * list event :=
  let est := disk_size_estimate (len (r_key r)) (len (r_value r)) in
  let '(m1, ev1) :=
    if c_fsize c <? lf_size (ms_active m) + est then
      let '(a, e1) := h_sync (MData (ms_active_id m)) (ms_active m) in
      let '(n, e2) := h_open (c_io c) (MData (ms_active_id m + 1)) false lf_empty in
      (mkMs (ms_active_id m + 1) n (older_set (ms_older m) (ms_active_id m) a) (ms_hint m), e1 ++ e2)
    else (m, []) in
  let '(a, p, ev2) := lf_append (c_io c) (MData (ms_active_id m1)) (ms_active_id m1) (ms_active m1) r in
  (mkMs (ms_active_id m1) a (ms_older m1) (ms_hint m1), p, ev1 ++ ev2).

(* WriteHintRecord: framed like any record *)
Definition ms_hint_append (c : cfg) (m : mstate) (k : bytes) (p : pos) : mstate * list event :=
  let h := ms_hint m in
  let '(_, bid', bsz') := frame 0 (hf_size h / blockSize) (hf_size h mod blockSize) (hint_len k p) in
  let n := bid' * blockSize + bsz' - hf_size h in
  let phys := if c_io c =? io_MMap then hf_phys h else hf_size h + n in
  (mkMs (ms_active_id m) (ms_active m) (ms_older m) (mkHf (hf_recs h ++ [(k, p)]) (hf_size h + n) phys),
   [EvWrite MHint n (WHint k p)]).

Inductive merge_step_res := MsOk (m : mstate) | MsErr (e : eerr) (m : mstate).

(* the scan of one input file against the live index *)
Fixpoint merge_file (c : cfg) (ix : index) (fid non_merge : N) (m : mstate) (rs : list (record * pos))
  : merge_step_res * list event :=
  match rs with
  | [] => (MsOk m, [])
  | (r, p) :: rest =>
    match idx_get ix (r_key r) with
    | Some q =>
      if (p_fid q =? fid) && (p_off q =? p_off p) && (p_bid q =? p_bid p) then
        let '(m1, np, ev1) := ms_append c m (mkRec (r_type r) (r_key r) (r_value r) 0) in
        if non_merge <=? ms_active_id m1 then (MsErr EMergeOutputTooLarge m1, ev1) else
        let '(m2, ev2) := ms_hint_append c m1 (r_key r) np in
        let '(res, ev3) := merge_file c ix fid non_merge m2 rest in
        (res, ev1 ++ ev2 ++ ev3)
      else merge_file c ix fid non_merge m rest
    | None => merge_file c ix fid non_merge m rest
    end
  end.

(* the sequential reader touches the first block of a non-empty input file (under MMap this
   re-extends a mapping dropped by Backup) *)
Definition scan_touch (io : N) (nm : fname) (f : lfile) : lfile * list event :=
  if lf_size f =? 0 then (f, [])
  else h_read io nm f 0 (if lf_size f <=? blockSize then lf_size f else blockSize).

Fixpoint merge_files (c : cfg) (d : db) (order : list N) (non_merge : N) (m : mstate)
  : db * merge_step_res * list event :=
  match order with
  | [] => (d, MsOk m, [])
  | fid :: rest =>
    match older_get (d_older d) fid with
    | None => merge_files c d rest non_merge m
    | Some f =>
      let '(f', ev0) := scan_touch (c_io c) (FData fid) f in
      let d' := set_older d (older_set (d_older d) fid f') in
      let '(res, ev1) := merge_file c (d_index d') fid non_merge m (lf_recs f') in
      match res with
      | MsErr e m' => (d', MsErr e m', ev0 ++ ev1)
      | MsOk m' => let '(d'', res2, ev2) := merge_files c d' rest non_merge m' in (d'', res2, ev0 ++ ev1 ++ ev2)
      end
    end
  end.

Definition hf_open_new (io : N) : hfile * list event :=
  if io =? io_MMap then (mkHf [] 0 mmapBlockSize, [EvCreate MHint; EvTrunc MHint mmapBlockSize])
  else (hf_empty, [EvCreate MHint]).
Definition hf_close (io : N) (h : hfile) : hfile * list event :=
  if io =? io_MMap then (mkHf (hf_recs h) (hf_size h) (hf_size h), [EvSync MHint; EvTrunc MHint (hf_size h); EvClose MHint])
  else (mkHf (hf_recs h) (hf_size h) (hf_size h), [EvSync MHint; EvClose MHint]).

Fixpoint ms_close_older (io : N) (files : list (N * lfile)) : list (N * lfile) * list event :=
  match files with
  | [] => ([], [])
  | (id, f) :: rest =>
    let '(f', ev1) := h_close io (MData id) f in
    let '(rest', ev2) := ms_close_older io rest in
    ((id, f') :: rest', ev1 ++ ev2)
  end.

(* Merge; [order] is the order in which the implementation happened to iterate the map of
   older files (an input of the model, observed by the harness) *)
Definition db_merge (d : db) (k : disk) (order : list N) : db * disk * option eerr * list event :=
  let c := d_cfg d in
  let '(d1, ev1) := db_rotate d in
  let non_merge := d_active_id d1 in
  (* a left-over merge directory: its finished-marker goes first (RemoveAll unlinks entry by entry; whatever
     an interrupted RemoveAll leaves behind must not look like a finished merge), then the directory *)
  let ev2 := match k_merge k with Some _ => [EvRemove MMarker; EvRemoveAllMerge; EvMkdirMerge] | None => [EvMkdirMerge] end in
  let '(a0, ev3) := h_open (c_io c) (MData 0) false lf_empty in
  let '(h0, ev4) := hf_open_new (c_io c) in
  let m0 := mkMs 0 a0 [] h0 in
  let '(d2, res, ev5) := merge_files c d1 order non_merge m0 in
  match res with
  | MsErr e m =>
    (* files are left open and unfinished; no marker: the directory is ignored by Open *)
    (d2, mkDisk (k_data k) (k_hint k)
           (Some (mkMdir (older_set (ms_older m) (ms_active_id m) (ms_active m)) (Some (ms_hint m)) None)),
     Some e, ev1 ++ ev2 ++ ev3 ++ ev4 ++ ev5)
  | MsOk m =>
    let '(h1, ev6) := hf_close (c_io c) (ms_hint m) in
    let '(a1, ev7) := h_close (c_io c) (MData (ms_active_id m)) (ms_active m) in
    let '(o1, ev8) := ms_close_older (c_io c) (ms_older m) in
    (* the active file is flushed before the marker is written: every write the scan's liveness tests
       may have relied on (racing clients; a batch holds the engine lock until it has committed) is then
       durable when the merge output becomes adoptable *)
    let '(d3, evS) := db_sync d2 in
    (* marker: created, 4 raw bytes written, closed *)
    let ev9 := if c_io c =? io_MMap
               then [EvCreate MMarker; EvTrunc MMarker mmapBlockSize; EvWrite MMarker 4 (WMarker non_merge);
                     EvSync MMarker; EvTrunc MMarker 4; EvClose MMarker]
               else [EvCreate MMarker; EvWrite MMarker 4 (WMarker non_merge); EvSync MMarker; EvClose MMarker] in
    (d3, mkDisk (k_data k) (k_hint k)
           (Some (mkMdir (older_set o1 (ms_active_id m) a1) (Some h1) (Some non_merge))),
     None, ev1 ++ ev2 ++ ev3 ++ ev4 ++ ev5 ++ ev6 ++ ev7 ++ ev8 ++ evS ++ ev9)
  end.

(* ---- Merge with writers racing the scan ------------------------------------------------ *)
(* Merge releases the engine lock after it has rotated the active file and taken its list of input
   files; Put and Delete calls of other goroutines then run between any two steps of the scan (each
   is one critical section of the engine lock; the scan reads the index once per record).  [pro]:
   the calls that run before the scan starts; [sched]: one slot per scanned record, run right before
   that record is looked up in the index. *)
Inductive mop := MPut (k v : bytes) | MDel (k : bytes).

Fixpoint run_mops (d : db) (ops : list mop) : db * list event :=
  match ops with
  | [] => (d, [])
  | MPut k v :: rest => let '(d1, _, e1) := db_put d k v in let '(d2, e2) := run_mops d1 rest in (d2, e1 ++ e2)
  | MDel k :: rest => let '(d1, _, e1) := db_delete d k in let '(d2, e2) := run_mops d1 rest in (d2, e1 ++ e2)
  end.

Fixpoint merge_file_i (c : cfg) (fid non_merge : N) (d : db) (m : mstate) (rs : list (record * pos))
         (sched : list (list mop)) : db * merge_step_res * list (list mop) * list event :=
  match rs with
  | [] => (d, MsOk m, sched, [])
  | (r, p) :: rest =>
    let '(d1, ev0) := run_mops d (hd [] sched) in
    let sched' := tl sched in
    match idx_get (d_index d1) (r_key r) with
    | Some q =>
      if (p_fid q =? fid) && (p_off q =? p_off p) && (p_bid q =? p_bid p) then
        let '(m1, np, ev1) := ms_append c m (mkRec (r_type r) (r_key r) (r_value r) 0) in
        if non_merge <=? ms_active_id m1 then (d1, MsErr EMergeOutputTooLarge m1, sched', ev0 ++ ev1) else
        let '(m2, ev2) := ms_hint_append c m1 (r_key r) np in
        let '(d2, res, sched'', ev3) := merge_file_i c fid non_merge d1 m2 rest sched' in
        (d2, res, sched'', ev0 ++ ev1 ++ ev2 ++ ev3)
      else let '(d2, res, sched'', ev3) := merge_file_i c fid non_merge d1 m rest sched' in (d2, res, sched'', ev0 ++ ev3)
    | None => let '(d2, res, sched'', ev3) := merge_file_i c fid non_merge d1 m rest sched' in (d2, res, sched'', ev0 ++ ev3)
    end
  end.

Fixpoint merge_files_i (c : cfg) (d : db) (order : list N) (non_merge : N) (m : mstate) (sched : list (list mop))
  : db * merge_step_res * list event :=
  match order with
  | [] => (d, MsOk m, [])
  | fid :: rest =>
    match older_get (d_older d) fid with
    | None => merge_files_i c d rest non_merge m sched
    | Some f =>
      let '(f', ev0) := scan_touch (c_io c) (FData fid) f in
      let d' := set_older d (older_set (d_older d) fid f') in
      let '(d1, res, sched', ev1) := merge_file_i c fid non_merge d' m (lf_recs f') sched in
      match res with
      | MsErr e m' => (d1, MsErr e m', ev0 ++ ev1)
      | MsOk m' => let '(d2, res2, ev2) := merge_files_i c d1 rest non_merge m' sched' in (d2, res2, ev0 ++ ev1 ++ ev2)
      end
    end
  end.

Definition db_merge_i (d : db) (k : disk) (order : list N) (pro : list mop) (sched : list (list mop))
  : db * disk * option eerr * list event :=
  let c := d_cfg d in
  let '(d1, ev1) := db_rotate d in
  let non_merge := d_active_id d1 in
  (* a left-over merge directory: its finished-marker goes first (RemoveAll unlinks entry by entry; whatever
     an interrupted RemoveAll leaves behind must not look like a finished merge), then the directory *)
  let ev2 := match k_merge k with Some _ => [EvRemove MMarker; EvRemoveAllMerge; EvMkdirMerge] | None => [EvMkdirMerge] end in
  let '(d1p, evp) := run_mops d1 pro in
  let '(a0, ev3) := h_open (c_io c) (MData 0) false lf_empty in
  let '(h0, ev4) := hf_open_new (c_io c) in
  let m0 := mkMs 0 a0 [] h0 in
  let '(d2, res, ev5) := merge_files_i c d1p order non_merge m0 sched in
  match res with
  | MsErr e m =>
    (d2, mkDisk (k_data k) (k_hint k)
           (Some (mkMdir (older_set (ms_older m) (ms_active_id m) (ms_active m)) (Some (ms_hint m)) None)),
     Some e, ev1 ++ ev2 ++ evp ++ ev3 ++ ev4 ++ ev5)
  | MsOk m =>
    let '(h1, ev6) := hf_close (c_io c) (ms_hint m) in
    let '(a1, ev7) := h_close (c_io c) (MData (ms_active_id m)) (ms_active m) in
    let '(o1, ev8) := ms_close_older (c_io c) (ms_older m) in
    let '(d3, evS) := db_sync d2 in
    let ev9 := if c_io c =? io_MMap
               then [EvCreate MMarker; EvTrunc MMarker mmapBlockSize; EvWrite MMarker 4 (WMarker non_merge);
                     EvSync MMarker; EvTrunc MMarker 4; EvClose MMarker]
               else [EvCreate MMarker; EvWrite MMarker 4 (WMarker non_merge); EvSync MMarker; EvClose MMarker] in
    (d3, mkDisk (k_data k) (k_hint k)
           (Some (mkMdir (older_set o1 (ms_active_id m) a1) (Some h1) (Some non_merge))),
     None, ev1 ++ ev2 ++ evp ++ ev3 ++ ev4 ++ ev5 ++ ev6 ++ ev7 ++ ev8 ++ evS ++ ev9)
  end.

(* ---- crash images -------------------------------------------------------------------- *)
(* a file after a crash: [cut] bytes survive (cut = physical size for a process-only crash);
   complete records are those that end at or before the cut *)
Fixpoint recs_upto (rs : list (record * pos)) (cut : N) : list (record * pos) :=
  match rs with
  | [] => []
  | (r, p) :: rest => if pos_end p <=? cut then (r, p) :: recs_upto rest cut else []
  end.
Definition lf_crash (f : lfile) (cut : N) : lfile :=
  let rs := recs_upto (lf_recs f) cut in
  let e := recs_end rs in
  mkLf rs cut cut 0 (norm_abs e <? cut) cut.
