(* Crc.v — executable CRC-32/IEEE (hash/crc32.ChecksumIEEE), used only when the model
   is run; every theorem is stated for an arbitrary function crc : bytes -> N. *)
From KV Require Import Bytes.
Open Scope N_scope.

Definition crc_poly : N := 3988292384. (* 0xEDB88320 *)

Fixpoint crc_entry_fuel (k : nat) (c : N) : N :=
  match k with
  | O => c
  | S k' => crc_entry_fuel k' (if N.odd c then N.lxor crc_poly (N.shiftr c 1) else N.shiftr c 1)
  end.

Fixpoint crc_table_from (n : nat) (i : N) : list N :=
  match n with O => [] | S n' => crc_entry_fuel 8 i :: crc_table_from n' (i + 1) end.
Definition crc_table : list N := crc_table_from 256 0.

Definition crc_step (table : list N) (c : N) (b : byte) : N :=
  N.lxor (nth (N.to_nat (N.land (N.lxor c b) 255)) table 0) (N.shiftr c 8).

Definition crc32_with (table : list N) (l : bytes) : N :=
  N.lxor (fold_left (crc_step table) l 4294967295) 4294967295.

Definition crc32 (l : bytes) : N := crc32_with crc_table l.
