(* RefHeap.v — the API boundary with explicit memory (C15): byte slices are cells of a heap; the
   caller owns one key buffer and one value buffer which it reuses for every call and overwrites
   after every return, and owns the cells returned by Get, into which it writes as well.  The engine
   follows the copy-at-the-boundary discipline: it stores copies of what it is given and hands out
   copies of what it stores.  Model only. *)
From Coq Require Import List NArith Bool.
From KV Require Import Bytes.
Import ListNotations.

Definition heap := list bytes.                    (* address = position *)
Definition deref (h : heap) (a : nat) : bytes := nth a h [].
Definition alloc (h : heap) (b : bytes) : heap * nat := (h ++ [b], length h).
Fixpoint set_cell (h : heap) (a : nat) (b : bytes) : heap :=
  match h, a with
  | [], _ => []
  | _ :: r, O => b :: r
  | x :: r, S a' => x :: set_cell r a' b
  end.

Record world := mkWorld {
  w_heap : heap;
  w_store : list (nat * nat);   (* the engine's entries: key cell, value cell *)
  w_kbuf : nat; w_vbuf : nat;   (* the caller's two buffers *)
  w_ret : list nat;             (* cells returned to the caller so far *)
}.

Definition w_init : world := mkWorld [[]; []] [] 0 1 [].

Fixpoint find_entry (h : heap) (st : list (nat * nat)) (k : bytes) : option (nat * nat) :=
  match st with
  | [] => None
  | (ka, va) :: r => if bytes_eqb (deref h ka) k then Some (ka, va) else find_entry h r k
  end.
Fixpoint remove_entry (h : heap) (st : list (nat * nat)) (k : bytes) : list (nat * nat) :=
  match st with
  | [] => []
  | (ka, va) :: r => if bytes_eqb (deref h ka) k then remove_entry h r k else (ka, va) :: remove_entry h r k
  end.

(* one call of a hostile caller; [junk*] is what it writes over its buffers afterwards *)
Inductive hop :=
| HPut (k v junkk junkv : bytes)
| HDel (k junkk : bytes)
| HGet (k junkk poison : bytes).    (* poison: what the caller writes into the returned slice *)

Definition hstep (w : world) (o : hop) : world * option bytes :=
  match o with
  | HPut k v jk jv =>
    (* the caller fills its buffers and calls Put(kbuf, vbuf) *)
    let h0 := set_cell (set_cell (w_heap w) (w_kbuf w) k) (w_vbuf w) v in
    (* the engine copies both *)
    let '(h1, ka) := alloc h0 (deref h0 (w_kbuf w)) in
    let '(h2, va) := alloc h1 (deref h1 (w_vbuf w)) in
    let st := (ka, va) :: remove_entry h2 (w_store w) (deref h2 ka) in
    (* after the return the caller overwrites its buffers *)
    let h3 := set_cell (set_cell h2 (w_kbuf w) jk) (w_vbuf w) jv in
    (mkWorld h3 st (w_kbuf w) (w_vbuf w) (w_ret w), None)
  | HDel k jk =>
    let h0 := set_cell (w_heap w) (w_kbuf w) k in
    let st := remove_entry h0 (w_store w) (deref h0 (w_kbuf w)) in
    let h1 := set_cell h0 (w_kbuf w) jk in
    (mkWorld h1 st (w_kbuf w) (w_vbuf w) (w_ret w), None)
  | HGet k jk poison =>
    let h0 := set_cell (w_heap w) (w_kbuf w) k in
    match find_entry h0 (w_store w) (deref h0 (w_kbuf w)) with
    | None => (mkWorld (set_cell h0 (w_kbuf w) jk) (w_store w) (w_kbuf w) (w_vbuf w) (w_ret w), None)
    | Some (_, va) =>
      (* the engine hands out a copy; the caller reads it, then writes into it and over its buffer *)
      let '(h1, ra) := alloc h0 (deref h0 va) in
      let result := deref h1 ra in
      let h2 := set_cell (set_cell h1 ra poison) (w_kbuf w) jk in
      (mkWorld h2 (w_store w) (w_kbuf w) (w_vbuf w) (ra :: w_ret w), Some result)
    end
  end.

Fixpoint hrun (w : world) (ops : list hop) : world * list (option bytes) :=
  match ops with
  | [] => (w, [])
  | o :: r => let '(w1, x) := hstep w o in let '(w2, xs) := hrun w1 r in (w2, x :: xs)
  end.

(* ---- the value-semantic specification: an association list of byte strings ------------------------ *)
Fixpoint v_find (m : list (bytes * bytes)) (k : bytes) : option bytes :=
  match m with [] => None | (a, b) :: r => if bytes_eqb a k then Some b else v_find r k end.
Fixpoint v_remove (m : list (bytes * bytes)) (k : bytes) : list (bytes * bytes) :=
  match m with [] => [] | (a, b) :: r => if bytes_eqb a k then v_remove r k else (a, b) :: v_remove r k end.
Definition vstep (m : list (bytes * bytes)) (o : hop) : list (bytes * bytes) * option bytes :=
  match o with
  | HPut k v _ _ => ((k, v) :: v_remove m k, None)
  | HDel k _ => (v_remove m k, None)
  | HGet k _ _ => (m, v_find m k)
  end.
Fixpoint vrun (m : list (bytes * bytes)) (ops : list hop) : list (bytes * bytes) * list (option bytes) :=
  match ops with
  | [] => (m, [])
  | o :: r => let '(m1, x) := vstep m o in let '(m2, xs) := vrun m1 r in (m2, x :: xs)
  end.

(* what the engine's entries denote *)
Definition w_abs (w : world) : list (bytes * bytes) :=
  map (fun e => (deref (w_heap w) (fst e), deref (w_heap w) (snd e))) (w_store w).
