(* LockSet.v — the lockset discipline: shared locations, reader/writer locks, threads that take locks
   and touch locations.  Model only (C09: no unsynchronised conflicting memory accesses).

   An access names a location (a field of DB, Batch, DataFile or MMap), the object it belongs to
   (0 the one shared database / batch, 1 the active data file, 2 an older data file, 3 not known:
   may be any of them), whether it writes, whether it is an atomic operation, and the locks the
   translator found held at that point, each with its mode (true = exclusive).  gen/GenAccess.v holds
   the table extracted from the source on every run. *)
From Coq Require Import List Arith Bool.
Import ListNotations.

Definition lockid := nat.
Record access := mkAcc {
  a_loc : nat; a_inst : nat; a_write : bool; a_atomic : bool; a_held : list (lockid * bool) }.

Definition inst_overlap (i j : nat) : bool := Nat.eqb i j || Nat.eqb i 3 || Nat.eqb j 3.
Definition same_loc (a b : access) : bool := Nat.eqb (a_loc a) (a_loc b) && inst_overlap (a_inst a) (a_inst b).
(* two accesses conflict when they may touch the same memory, one of them writes, and they are not
   both atomic operations *)
Definition conflict (a b : access) : bool :=
  same_loc a b && (a_write a || a_write b) && negb (a_atomic a && a_atomic b).
(* they are ordered by a lock when some lock is held at both and at least one side holds it exclusively *)
Definition common_lock (a b : access) : bool :=
  existsb (fun la => existsb (fun lb => Nat.eqb (fst la) (fst lb) && (snd la || snd lb)) (a_held b)) (a_held a).
Definition pair_ok (a b : access) : bool := negb (conflict a b) || common_lock a b.
(* the discipline: every two entries of the table - an entry and itself included, two threads may run
   the same code - that conflict are ordered by a lock *)
Definition lockset_ok (t : list access) : bool := forallb (fun a => forallb (pair_ok a) t) t.

(* ---- threads ---- *)
Inductive aev := LAcq (l : lockid) (excl : bool) | LRel (l : lockid) | Touch (a : access).
Record athr := mkAThr { at_held : list (lockid * bool); at_rest : list aev }.

Definition holds_any (h : list (lockid * bool)) (l : lockid) : bool := existsb (fun x => Nat.eqb (fst x) l) h.
Definition holds_excl (h : list (lockid * bool)) (l : lockid) : bool := existsb (fun x => Nat.eqb (fst x) l && snd x) h.
Fixpoint drop_lock (l : lockid) (h : list (lockid * bool)) : list (lockid * bool) :=
  match h with [] => [] | x :: r => if Nat.eqb (fst x) l then r else x :: drop_lock l r end.

(* sync.RWMutex: Lock needs the lock free, RLock needs no exclusive holder *)
Definition can_acquire (s : list athr) (l : lockid) (excl : bool) : bool :=
  if excl then forallb (fun t => negb (holds_any (at_held t) l)) s
  else forallb (fun t => negb (holds_excl (at_held t) l)) s.

Fixpoint set_athr (s : list athr) (i : nat) (t : athr) : list athr :=
  match s, i with [], _ => [] | _ :: r, O => t :: r | x :: r, S j => x :: set_athr r j t end.

Definition astep (s : list athr) (i : nat) : option (list athr) :=
  match nth_error s i with
  | Some (mkAThr h (LAcq l x :: r)) => if can_acquire s l x then Some (set_athr s i (mkAThr ((l, x) :: h) r)) else None
  | Some (mkAThr h (LRel l :: r)) => Some (set_athr s i (mkAThr (drop_lock l h) r))
  | Some (mkAThr h (Touch _ :: r)) => Some (set_athr s i (mkAThr h r))
  | _ => None
  end.
Fixpoint arun (s : list athr) (sched : list nat) : list athr :=
  match sched with
  | [] => s
  | i :: r => match astep s i with Some s' => arun s' r | None => arun s r end
  end.

(* a data race: two different threads are each about to perform an access, and the two conflict *)
Definition race (s : list athr) : Prop :=
  exists i j ti tj a b ri rj,
    i <> j /\ nth_error s i = Some ti /\ nth_error s j = Some tj /\
    at_rest ti = Touch a :: ri /\ at_rest tj = Touch b :: rj /\ conflict a b = true.

(* a thread is annotated faithfully by a table when every access it performs is an entry of the table
   and the locks that entry lists are held, in the listed mode, when the access happens *)
Definition mem_access (a : access) (t : list access) : Prop := In a t.
Fixpoint annotated (tbl : list access) (h : list (lockid * bool)) (es : list aev) : Prop :=
  match es with
  | [] => True
  | LAcq l x :: r => annotated tbl ((l, x) :: h) r
  | LRel l :: r => annotated tbl (drop_lock l h) r
  | Touch a :: r => In a tbl /\ (forall lx, In lx (a_held a) -> In lx h) /\ annotated tbl h r
  end.
