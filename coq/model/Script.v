(* Script.v — operation scripts over the engine model (step/run) and the abstract
   specification they are compared with (a plain ordered map).  Model only. *)
From KV Require Import Bytes GenConsts Chunk Record Engine.
Open Scope N_scope.

Inductive bop := BPut (k v : bytes) | BDel (k : bytes) | BGet (k : bytes).

Inductive op :=
| OpPut (k v : bytes) | OpGet (k : bytes) | OpDel (k : bytes)
| OpList | OpFold | OpStat | OpSync
| OpBatch (sync : bool) (id : N) (bops : list bop)   (* NewBatch; the operations; Commit *)
| OpMerge (order : list N)
| OpRestart (c : cfg).                               (* Close; Open c *)

Inductive res :=
| RErr (e : option eerr)
| RVal (v : bytes + eerr)
| RKeys (l : list bytes)
| RFold (r : list (bytes * bytes) + eerr)
| RStat (keynum files reclaim total : N)
| RBatch (rs : list res) (commit : option eerr)
| RMerge (e : option eerr).

Definition state := (db * disk)%type.

Fixpoint run_bops (d : db) (b : batch) (bops : list bop) : db * batch * list res * list event :=
  match bops with
  | [] => (d, b, [], [])
  | o :: rest =>
    match o with
    | BPut k v =>
      let '(d1, b1, e, ev1) := batch_put d b k v in
      let '(d2, b2, rs, ev2) := run_bops d1 b1 rest in (d2, b2, RErr e :: rs, ev1 ++ ev2)
    | BDel k =>
      let '(d1, b1, e, ev1) := batch_delete d b k in
      let '(d2, b2, rs, ev2) := run_bops d1 b1 rest in (d2, b2, RErr e :: rs, ev1 ++ ev2)
    | BGet k =>
      let '(d1, v, ev1) := batch_get d b k in
      let '(d2, b2, rs, ev2) := run_bops d1 b rest in (d2, b2, RVal v :: rs, ev1 ++ ev2)
    end
  end.

Definition step (s : state) (o : op) : state * res * list event :=
  let '(d, k) := s in
  match o with
  | OpPut key v => let '(d', e, evs) := db_put d key v in ((d', k), RErr e, evs)
  | OpDel key => let '(d', e, evs) := db_delete d key in ((d', k), RErr e, evs)
  | OpGet key => let '(d', v, evs) := db_get d key in ((d', k), RVal v, evs)
  | OpList => ((d, k), RKeys (db_list_keys d), [])
  | OpFold => let '(d', r, evs) := db_fold d in ((d', k), RFold r, evs)
  | OpStat => let '(kn, fn, rc, tot) := db_stat d in ((d, k), RStat kn fn rc tot, [])
  | OpSync => let '(d', evs) := db_sync d in ((d', k), RErr None, evs)
  | OpBatch sync id bops =>
    let '(d1, b1, rs, ev1) := run_bops d (new_batch sync id) bops in
    let '(d2, _, e, ev2) := batch_commit d1 b1 in
    ((d2, k), RBatch rs e, ev1 ++ ev2)
  | OpMerge order => let '(d', k', e, evs) := db_merge d k order in ((d', k'), RMerge e, evs)
  | OpRestart c =>
    let '(k1, ev1) := db_close d k in
    match db_open c k1 with
    | (OpenOk d' k2, ev2) => ((d', k2), RErr None, ev1 ++ ev2)
    | (OpenErr e k2, ev2) => ((d, k2), RErr (Some e), ev1 ++ ev2)
    end
  end.

Fixpoint run (s : state) (ops : list op) : state * list res * list event :=
  match ops with
  | [] => (s, [], [])
  | o :: rest =>
    let '(s1, r, ev1) := step s o in
    let '(s2, rs, ev2) := run s1 rest in
    (s2, r :: rs, ev1 ++ ev2)
  end.

(* ---- specification: an ordered map from keys to values ------------------------ *)
Definition smap := amap bytes.

Definition s_get (m : smap) (k : bytes) : bytes + eerr :=
  if len k =? 0 then inr EKeyIsEmpty else
  match amap_get m k with Some v => inl v | None => inr EKeyNotFound end.
Definition s_put (m : smap) (k v : bytes) : smap * option eerr :=
  if len k =? 0 then (m, Some EKeyIsEmpty) else (fst (amap_put m k v), None).
Definition s_del (m : smap) (k : bytes) : smap * option eerr :=
  if len k =? 0 then (m, Some EKeyIsEmpty) else (fst (amap_del m k), None).

(* a batch works on a private copy of the map: Get inside the batch sees the batch's own puts
   and deletes and otherwise the database; Commit installs the copy, i.e. the database becomes
   the state obtained by applying the batch's operations one by one in issue order *)
Fixpoint s_bops (mcur : smap) (bops : list bop) : smap * list res :=
  match bops with
  | [] => (mcur, [])
  | BPut k v :: rest =>
    let '(m', e) := s_put mcur k v in
    let '(mf, rs) := s_bops m' rest in (mf, RErr e :: rs)
  | BDel k :: rest =>
    let '(m', e) := s_del mcur k in
    let '(mf, rs) := s_bops m' rest in (mf, RErr e :: rs)
  | BGet k :: rest =>
    let '(mf, rs) := s_bops mcur rest in (mf, RVal (s_get mcur k) :: rs)
  end.

Definition sstep (m : smap) (o : op) : smap * res :=
  match o with
  | OpPut k v => let '(m', e) := s_put m k v in (m', RErr e)
  | OpDel k => let '(m', e) := s_del m k in (m', RErr e)
  | OpGet k => (m, RVal (s_get m k))
  | OpList => (m, RKeys (map fst m))
  | OpFold => (m, RFold (inl m))
  | OpStat => (m, RStat (len m) 0 0 0)
  | OpSync => (m, RErr None)
  | OpBatch _ _ bops => let '(mf, rs) := s_bops m bops in (mf, RBatch rs None)
  | OpMerge _ => (m, RMerge None)
  | OpRestart _ => (m, RErr None)
  end.

Fixpoint srun (m : smap) (ops : list op) : list res :=
  match ops with
  | [] => []
  | o :: rest => let '(m', r) := sstep m o in r :: srun m' rest
  end.

(* what C01 compares: everything but the file count and the byte counters of Stat (C17),
   and the merge outcome (a merge may be abandoned with an error without changing any value) *)
Fixpoint proj (r : res) : res :=
  match r with
  | RStat kn _ _ _ => RStat kn 0 0 0
  | RBatch rs c => RBatch (map proj rs) c
  | RMerge _ => RMerge None
  | _ => r
  end.

(* ---- what recovery computes, at specification level -------------------------------------- *)
(* one record applied to the map: a tombstone deletes, anything else puts *)
Definition rec_apply (m : smap) (r : record) : smap :=
  if r_type r =? rt_Deleted then fst (amap_del m (r_key r)) else fst (amap_put m (r_key r) (r_value r)).
Definition s_apply_recs (m : smap) (rs : list record) : smap := fold_left rec_apply rs m.

(* pending batches: batch id -> its records seen so far, in log order *)
Definition stx := list (N * list record).
Fixpoint stx_get (t : stx) (id : N) : list record :=
  match t with [] => [] | (i, l) :: r => if i =? id then l else stx_get r id end.
Fixpoint stx_add (t : stx) (id : N) (e : record) : stx :=
  match t with
  | [] => [(id, [e])]
  | (i, l) :: r => if i =? id then (i, l ++ [e]) :: r else (i, l) :: stx_add r id e
  end.
Fixpoint stx_del (t : stx) (id : N) : stx :=
  match t with [] => [] | (i, l) :: r => if i =? id then r else (i, l) :: stx_del r id end.

(* replaying a log: plain records apply at once, tagged records wait for the batch-finished
   record with their id, which applies them in order *)
Fixpoint sreplay (m : smap) (t : stx) (rs : list record) : smap * stx :=
  match rs with
  | [] => (m, t)
  | r :: rest =>
    if r_batch r =? 0 then sreplay (rec_apply m r) t rest
    else if r_type r =? rt_BatchFinished
         then sreplay (s_apply_recs m (stx_get t (r_batch r))) (stx_del t (r_batch r)) rest
         else sreplay m (stx_add t (r_batch r) r) rest
  end.
