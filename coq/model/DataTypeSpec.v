(* DataTypeSpec.v — two specification levels for the data-structure layer.
   (1) the commands on a plain ordered map of byte strings (the engine's specification, Script.smap);
   (2) the abstract types themselves: strings with expiry, hashes, sets, lists, sorted sets. *)
From KV Require Import Bytes GenConsts Record Engine Script DataType DataTypeRun.
Open Scope N_scope.

(* ---- (1) on the map ----------------------------------------------------------------------------------- *)
Definition m_get (M : smap) (k : bytes) : smap * option bytes :=
  (M, match s_get M k with inl v => Some v | inr _ => None end).

Definition bop_of (w : wop) : bop := match w with WPut k v => BPut k v | WDel k => BDel k end.

Definition m_apply (M : smap) (p : plan) : smap * option eerr :=
  match p with
  | PNone => (M, None)
  | PPut k v => s_put M k v
  | PDelete k => s_del M k
  | PBatch ws => (fst (s_bops M (map bop_of ws)), None)
  end.

Definition m_cmd (M : smap) (c : cmd) (ver now : N) : smap * outcome :=
  let '(M1, r, p) := dt_cmd smap m_get M c ver now in
  let '(M2, e) := m_apply M1 p in
  (M2, match e with Some x => OErr x | None => OReply r end).

(* ---- (2) the abstract types ---------------------------------------------------------------------------- *)
Inductive aval :=
| AStr (v : bytes) (expire : N)          (* expire = 0: never *)
| AHash (h : amap bytes)                 (* field -> value *)
| ASet (s : amap bytes)                  (* member -> [] *)
| AList (l : list bytes)                 (* left to right *)
| AZSet (z : amap bytes).                (* member -> score *)

Definition kind (a : aval) : N :=
  match a with AStr _ _ => ty_String | AHash _ => ty_Hash | ASet _ => ty_Set | AList _ => ty_List | AZSet _ => ty_ZSet end.

Definition astate := bytes -> option aval.
Definition aupd (A : astate) (k : bytes) (o : option aval) : astate := fun x => if bytes_eqb x k then o else A x.

Definition mem {V} (m : amap V) (k : bytes) : bool := match amap_get m k with Some _ => true | None => false end.

(* one command on the abstract state; "absent" is one reply (DNil).  A key whose structure was emptied
   element by element keeps its type until it is deleted. *)
Definition a_cmd (A : astate) (c : cmd) (now : N) : astate * dreply :=
  match c with
  | KSet k v ex => (aupd A k (Some (AStr v ex)), DOk)
  | KGet k =>
    (A, match A k with
        | None => DNil
        | Some (AStr v ex) => if (0 <? ex) && (ex <=? now) then DNil else DBytes v
        | Some _ => DWrongType
        end)
  | KDel k => (aupd A k None, DOk)
  | KType k => (A, match A k with None => DNil | Some a => DType (kind a) end)
  | KHSet k f v =>
    match A k with
    | None => (aupd A k (Some (AHash [(f, v)])), DBool true)
    | Some (AHash h) => (aupd A k (Some (AHash (fst (amap_put h f v)))), DBool (negb (mem h f)))
    | Some _ => (A, DWrongType)
    end
  | KHGet k f =>
    (A, match A k with
        | None => DNil
        | Some (AHash h) => match amap_get h f with Some v => DBytes v | None => DNil end
        | Some _ => DWrongType
        end)
  | KHDel k f =>
    match A k with
    | None => (A, DBool false)
    | Some (AHash h) => (aupd A k (Some (AHash (fst (amap_del h f)))), DBool (mem h f))
    | Some _ => (A, DWrongType)
    end
  | KSAdd k x =>
    match A k with
    | None => (aupd A k (Some (ASet [(x, [])])), DBool true)
    | Some (ASet s) => (aupd A k (Some (ASet (fst (amap_put s x [])))), DBool (negb (mem s x)))
    | Some _ => (A, DWrongType)
    end
  | KSIsMember k x =>
    (A, match A k with
        | None => DBool false
        | Some (ASet s) => DBool (mem s x)
        | Some _ => DWrongType
        end)
  | KSRem k x =>
    match A k with
    | None => (A, DBool false)
    | Some (ASet s) => (aupd A k (Some (ASet (fst (amap_del s x)))), DBool (mem s x))
    | Some _ => (A, DWrongType)
    end
  | KPush k e lft =>
    match A k with
    | None => (aupd A k (Some (AList [e])), DSize 1)
    | Some (AList l) => (aupd A k (Some (AList (if lft then e :: l else l ++ [e]))), DSize (len l + 1))
    | Some _ => (A, DWrongType)
    end
  | KPop k lft =>
    match A k with
    | None => (A, DNil)
    | Some (AList []) => (A, DNil)
    | Some (AList (x :: r)) =>
      if lft then (aupd A k (Some (AList r)), DBytes x)
      else (aupd A k (Some (AList (removelast (x :: r)))), DBytes (last (x :: r) []))
    | Some _ => (A, DWrongType)
    end
  | KZAdd k sc x =>
    match A k with
    | None => (aupd A k (Some (AZSet [(x, sc)])), DBool true)
    | Some (AZSet z) => (aupd A k (Some (AZSet (fst (amap_put z x sc)))), DBool (negb (mem z x)))
    | Some _ => (A, DWrongType)
    end
  | KZScore k x =>
    (A, match A k with
        | None => DNil
        | Some (AZSet z) => match amap_get z x with Some sc => DScore sc | None => DNil end
        | Some _ => DWrongType
        end)
  end.

(* the replies a client cannot tell apart *)
Definition canon (r : dreply) : dreply :=
  match r with DNotFound | DNoScore => DNil | _ => r end.

Definition cmd_key (c : cmd) : bytes :=
  match c with
  | KSet k _ _ | KGet k | KDel k | KType k | KHSet k _ _ | KHGet k _ | KHDel k _ | KSAdd k _ | KSIsMember k _ | KSRem k _
  | KPush k _ _ | KPop k _ | KZAdd k _ _ | KZScore k _ => k
  end.
