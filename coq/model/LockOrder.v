(* LockOrder.v — threads that take locks: events, states, deadlock.  Model only.
   A lock is (rank, id): rank 1 = the engine lock db.mu, 2 = a batch's own mutex, 3 = an index shard
   lock.  Read locks are treated like write locks (a blocked RLock also waits for a holder). *)
From Coq Require Import List Arith Bool.
Import ListNotations.

Definition lock := (nat * nat)%type.
Definition rank (l : lock) : nat := fst l.
Definition lock_eqb (a b : lock) : bool := Nat.eqb (fst a) (fst b) && Nat.eqb (snd a) (snd b).

Inductive ev := Acq (l : lock) | Rel (l : lock).

Fixpoint remove_lock (l : lock) (h : list lock) : list lock :=
  match h with [] => [] | x :: r => if lock_eqb x l then r else x :: remove_lock l r end.
Definition holds_lock (h : list lock) (l : lock) : bool := existsb (lock_eqb l) h.

(* a thread follows the lock discipline when every lock it takes has a higher rank than all it holds
   (so never one it holds), it releases only what it holds, and ends holding nothing *)
Fixpoint ordered_b (h : list lock) (es : list ev) : bool :=
  match es with
  | [] => match h with [] => true | _ => false end
  | Acq l :: r => forallb (fun x => Nat.ltb (rank x) (rank l)) h && ordered_b (l :: h) r
  | Rel l :: r => holds_lock h l && ordered_b (remove_lock l h) r
  end.

Record thr := mkThr { t_held : list lock; t_rest : list ev }.

Definition sys_holds (s : list thr) (l : lock) : Prop := exists t, In t s /\ holds_lock (t_held t) l = true.

(* nothing can move: some thread is not finished, and every unfinished thread is about to take a lock
   that some thread holds *)
Definition deadlocked (s : list thr) : Prop :=
  (exists t, In t s /\ t_rest t <> []) /\
  forall t, In t s -> t_rest t <> [] -> exists l r, t_rest t = Acq l :: r /\ sys_holds s l.

(* one step of thread number i: an acquisition needs the lock to be free *)
Fixpoint set_thr (s : list thr) (i : nat) (t : thr) : list thr :=
  match s, i with [] , _ => [] | _ :: r, O => t :: r | x :: r, S j => x :: set_thr r j t end.
Definition sys_free (s : list thr) (l : lock) : bool := forallb (fun t => negb (holds_lock (t_held t) l)) s.
Definition sys_step (s : list thr) (i : nat) : option (list thr) :=
  match nth_error s i with
  | Some (mkThr h (Acq l :: r)) => if sys_free s l then Some (set_thr s i (mkThr (l :: h) r)) else None
  | Some (mkThr h (Rel l :: r)) => Some (set_thr s i (mkThr (remove_lock l h) r))
  | _ => None
  end.
