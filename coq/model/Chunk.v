(* Chunk.v — block/chunk framing of datafile/data_file.go and DecodeChunk of
   datafile/log_record.go, transcribed function by function.  Model only. *)
From KV Require Import Bytes GenConsts.
Open Scope N_scope.

Inductive err :=
| EOF | UnexpectedEOF | InvalidCRC | ErrClosed.

(* result of a Go function: value, returned error, run-time panic, or model fuel exhausted *)
Inductive outcome (A : Type) :=
| Ok (a : A) | Err (e : err) | Panic | OutOfFuel.
Arguments Ok {A} a. Arguments Err {A} e. Arguments Panic {A}. Arguments OutOfFuel {A}.

Record pos := mkPos { p_fid : N; p_bid : N; p_off : N; p_size : N }.

Definition pos_eqb (a b : pos) : bool :=
  (p_fid a =? p_fid b) && (p_bid a =? p_bid b) && (p_off a =? p_off b) && (p_size a =? p_size b).

Section WithCrc.
Variable crc : bytes -> N.

(* ---- writer -------------------------------------------------------------- *)

(* bytes 4..6 of the chunk header followed by the payload: what the CRC covers *)
Definition chunk_body (ty : N) (payload : bytes) : bytes :=
  (le16 (len payload) ++ [ty]) ++ payload.
Definition chunk_header (ty : N) (payload : bytes) : bytes :=
  le32 (crc (chunk_body ty payload)) ++ (le16 (len payload) ++ [ty]).
Definition enc_chunk (c : N * bytes) : bytes := chunk_header (fst c) (snd c) ++ snd c.

(* writeToBuf: padding of a block tail that cannot hold a chunk header *)
Definition pad_len (bsz : N) : N :=
  if (blockSize <=? bsz + chunkHeaderSize) && negb (bsz =? blockSize) then blockSize - bsz else 0.

(* writeToBuf: the chunk loop; [room] is the payload capacity of the current block *)
Fixpoint chunks (fuel : nat) (first : bool) (room : N) (data : bytes) : list (N * bytes) :=
  match fuel with
  | O => []
  | S fuel' =>
    if len data =? 0 then [] else
    let w := if len data <=? room then len data else room in
    let ty := if w =? len data then (if first then ct_Full else ct_Last)
              else (if first then ct_First else ct_Middle) in
    (ty, take w data) :: chunks fuel' false (blockSize - chunkHeaderSize) (drop w data)
  end.

(* number of chunks, from the length alone (used by the record-level engine model) *)
Definition nchunks (room : N) (n : N) : N :=
  if n =? 0 then 0 else
  if n <=? room then 1 else
  1 + (n - room + (blockSize - chunkHeaderSize) - 1) / (blockSize - chunkHeaderSize).

(* position arithmetic of writeToBuf: start position and the next (block, offset) *)
Definition frame (fid bid bsz : N) (n : N) : pos * N * N :=
  let p := pad_len bsz in
  let bid0 := if p =? 0 then bid else bid + 1 in
  let bsz0 := if p =? 0 then bsz else 0 in
  let size := nchunks (blockSize - bsz0 - chunkHeaderSize) n * chunkHeaderSize + n in
  let e := bsz0 + size in
  (mkPos fid bid0 bsz0 size, bid0 + e / blockSize, e mod blockSize).

(* bytes appended by writeToBuf *)
Definition frame_bytes (bsz : N) (data : bytes) : bytes :=
  let p := pad_len bsz in
  let bsz0 := if p =? 0 then bsz else 0 in
  zeros p ++ concat (map enc_chunk
    (chunks (S (length data)) true (blockSize - bsz0 - chunkHeaderSize) data)).

(* DataFile: physical content and logical end (lastBlockID, lastBlockSize) *)
Record dfile := mkDf { df_id : N; df_bytes : bytes; df_bid : N; df_bsz : N; df_staged : list bytes }.

Definition df_open (id : N) (content : bytes) : dfile :=
  mkDf id content (len content / blockSize) (len content mod blockSize) [].
Definition df_size (f : dfile) : N := df_bid f * blockSize + df_bsz f.

(* writeSingle *)
Definition df_write (f : dfile) (data : bytes) : dfile * pos :=
  let '(p, bid', bsz') := frame (df_id f) (df_bid f) (df_bsz f) (len data) in
  (mkDf (df_id f) (df_bytes f ++ frame_bytes (df_bsz f) data) bid' bsz' (df_staged f), p).

(* WriteStagedLogRecord / writeAll (one Write call for all staged records) *)
Definition df_stage (f : dfile) (data : bytes) : dfile :=
  mkDf (df_id f) (df_bytes f) (df_bid f) (df_bsz f) (df_staged f ++ [data]).
Fixpoint write_all_buf (fid bid bsz : N) (recs : list bytes) : bytes * list pos * N * N :=
  match recs with
  | [] => ([], [], bid, bsz)
  | d :: r =>
    let '(p, bid', bsz') := frame fid bid bsz (len d) in
    let '(bs, ps, bid'', bsz'') := write_all_buf fid bid' bsz' r in
    (frame_bytes bsz d ++ bs, p :: ps, bid'', bsz'')
  end.
Definition df_flush (f : dfile) : dfile * list pos :=
  let '(bs, ps, bid', bsz') := write_all_buf (df_id f) (df_bid f) (df_bsz f) (df_staged f) in
  (mkDf (df_id f) (df_bytes f ++ bs) bid' bsz' [], ps).

(* any history of a data file: single writes, staged writes flushed in one Write call,
   close-and-reopen.  Returns the file and every record written with the position reported. *)
(* a Write call the back-end refuses (disk full, a revoked descriptor): nothing reaches the file, the call reports
   the error, and the staged records - whose buffers writeAll has handed back already - are gone with it *)
Definition df_refuse (f : dfile) : dfile := mkDf (df_id f) (df_bytes f) (df_bid f) (df_bsz f) [].

Inductive fop := FWrite (d : bytes) | FStage (d : bytes) | FFlush | FReopen | FRefused.
Fixpoint df_run (f : dfile) (ops : list fop) : dfile * list (bytes * pos) :=
  match ops with
  | [] => (f, [])
  | FWrite d :: r =>
      let '(f1, p) := df_write f d in
      let '(f2, out) := df_run f1 r in (f2, (d, p) :: out)
  | FStage d :: r => df_run (df_stage f d) r
  | FFlush :: r =>
      let staged := df_staged f in
      let '(f1, ps) := df_flush f in
      let '(f2, out) := df_run f1 r in (f2, combine staged ps ++ out)
  | FReopen :: r => df_run (df_open (df_id f) (df_bytes f)) r
  | FRefused :: r => df_run (df_refuse f) r
  end.

(* ---- readers ------------------------------------------------------------- *)

(* DecodeChunk on the valid rest of a block; every Go slice/index expression is a checked
   gslice/gindex whose failure is the outcome Panic *)
Definition decode_chunk (c : bytes) : outcome (bytes * N) :=
  if len c <? chunkHeaderSize then Err UnexpectedEOF else
  match gslice 4 6 c with
  | None => Panic
  | Some lb =>
    let e := chunkHeaderSize + rd16 lb in
    if len c <? e then Err UnexpectedEOF else
    match gslice 4 e c, gslice 0 4 c, gslice chunkHeaderSize e c, gindex 6 c with
    | Some body, Some sum, Some payload, Some ty =>
        if rd32 sum =? crc body then Ok (payload, ty) else Err InvalidCRC
    | _, _, _, _ => Panic
    end
  end.

(* chunkError *)
Definition chunk_error (e : err) (c : bytes) (block_end fsize : N) : err :=
  match e with
  | UnexpectedEOF => if block_end <? fsize then InvalidCRC else UnexpectedEOF
  | InvalidCRC =>
      if (chunkHeaderSize <=? len c) && all_zero (take chunkHeaderSize c)
      then UnexpectedEOF else InvalidCRC
  | _ => e
  end.

(* one chunk at (bid, off) of a file of [fsize] bytes: the common body of the two read loops *)
Inductive chunk_res :=
| CEnd                          (* block starts at/after EOF, or offset beyond the block's bytes *)
| CErr (e : err)
| CPanic
| CData (d : bytes) (ty : N).

Definition read_chunk (f : bytes) (fsize bid off : N) : chunk_res :=
  let o := bid * blockSize in
  if fsize <=? o then CEnd else
  let size := if fsize - o <=? blockSize then fsize - o else blockSize in
  if size <=? off then CEnd else
  let c := slice (o + off) (o + size) f in
  match decode_chunk c with
  | Ok (d, ty) => CData d ty
  | Err e => CErr (chunk_error e c (o + size) fsize)
  | Panic => CPanic
  | OutOfFuel => CPanic
  end.

Definition is_last (ty : N) : bool := (ty =? ct_Full) || (ty =? ct_Last).

(* DataReader.next: returns the record bytes, its position, and the reader's new (block, offset) *)
Fixpoint reader_next_fuel (fuel : nat) (f : bytes) (fsize fid : N)
         (bid0 off0 : N) (bid off : N) (cnt : N) (acc : bytes)
  : outcome (bytes * pos * N * N) :=
  match fuel with
  | O => OutOfFuel
  | S fuel' =>
    match read_chunk f fsize bid off with
    | CEnd => Err (if cnt =? 0 then EOF else UnexpectedEOF)
    | CErr e => Err e
    | CPanic => Panic
    | CData d ty =>
      let acc' := acc ++ d in
      let cnt' := cnt + 1 in
      if is_last ty then
        let off' := off + chunkHeaderSize + len d in
        let p := mkPos fid bid0 off0 (cnt' * chunkHeaderSize + len acc') in
        if blockSize <=? off' + chunkHeaderSize then Ok (acc', p, bid + 1, 0)
        else Ok (acc', p, bid, off')
      else reader_next_fuel fuel' f fsize fid bid0 off0 (bid + 1) 0 cnt' acc'
    end
  end.

Definition blocks_fuel (fsize : N) : nat := S (S (N.to_nat (fsize / blockSize))).

Definition reader_next (f : bytes) (fid bid off : N) : outcome (bytes * pos * N * N) :=
  reader_next_fuel (blocks_fuel (len f)) f (len f) fid bid off bid off 0 [].

(* the scan loop used by Open / Merge: all records until the first non-Ok result *)
Inductive scan_end := SEof | STorn | SErr (e : err) | SPanic | SFuel.
Fixpoint scan_fuel (fuel : nat) (f : bytes) (fid bid off : N) : list (bytes * pos) * scan_end :=
  match fuel with
  | O => ([], SFuel)
  | S fuel' =>
    match reader_next f fid bid off with
    | Ok (d, p, bid', off') =>
        let '(rs, e) := scan_fuel fuel' f fid bid' off' in ((d, p) :: rs, e)
    | Err EOF => ([], SEof)
    | Err UnexpectedEOF => ([], STorn)
    | Err e => ([], SErr e)
    | Panic => ([], SPanic)
    | OutOfFuel => ([], SFuel)
    end
  end.
(* every record occupies at least one header, so len f / 7 + 1 iterations suffice *)
Definition scan (f : bytes) (fid : N) : list (bytes * pos) * scan_end :=
  scan_fuel (S (N.to_nat (len f / chunkHeaderSize))) f fid 0 0.

(* readToBuf: random read at a position *)
Fixpoint read_at_fuel (fuel : nat) (f : bytes) (fsize bid off : N) (acc : bytes) : outcome bytes :=
  match fuel with
  | O => OutOfFuel
  | S fuel' =>
    match read_chunk f fsize bid off with
    | CEnd => Err EOF
    | CErr e => Err e
    | CPanic => Panic
    | CData d ty =>
      if is_last ty then Ok (acc ++ d)
      else read_at_fuel fuel' f fsize (bid + 1) 0 (acc ++ d)
    end
  end.
Definition read_at (f : dfile) (bid off : N) : outcome bytes :=
  if df_bid f <? bid then Err EOF
  else read_at_fuel (blocks_fuel (df_size f)) (df_bytes f) (df_size f) bid off [].

End WithCrc.
