(* DataType.v — datatype/types.go, meta.go, generic.go: Redis-style structures on top of the store.
   Model only.  A command reads the store through [lk : bytes -> option bytes] (DB.Get) and produces a
   reply and a plan of writes (a single Put, or one atomic batch).  Time and fresh versions are inputs:
   [now] = time.Now().UnixNano() as seen by the command, [ver] = the version a newly created key gets
   (time.Now().UnixNano() in findMetadata), [expire] = the absolute expiry Set computed. *)
From KV Require Import Bytes GenConsts.
Open Scope N_scope.

Definition ty_String : N := 0.
Definition ty_Hash : N := 1.
Definition ty_Set : N := 2.
Definition ty_List : N := 3.
Definition ty_ZSet : N := 4.
Definition initialListMark : N := 9223372036854775807.   (* math.MaxUint64 / 2 *)

Record meta := mkMeta { m_type : N; m_expire : N; m_version : N; m_size : N; m_head : N; m_tail : N }.

Definition enc_meta (m : meta) : bytes :=
  [m_type m] ++ put_varint_nonneg (m_expire m) ++ put_varint_nonneg (m_version m) ++ put_varint_nonneg (m_size m)
  ++ (if m_type m =? ty_List then put_uvarint (m_head m) ++ put_uvarint (m_tail m) else []).

(* decodeMetadata on a well-formed metadata record (the type byte was checked by the caller) *)
Definition dec_meta (buf : bytes) : option meta :=
  match buf with
  | [] => None
  | ty :: b1 =>
    match varint_nonneg b1 with
    | None => None
    | Some (ex, n1) =>
      let b2 := drop n1 b1 in
      match varint_nonneg b2 with
      | None => None
      | Some (ver, n2) =>
        let b3 := drop n2 b2 in
        match varint_nonneg b3 with
        | None => None
        | Some (sz, n3) =>
          if ty =? ty_List then
            let b4 := drop n3 b3 in
            match uvarint b4 with
            | None => None
            | Some (hd_, n4) =>
              match uvarint (drop n4 b4) with
              | None => None
              | Some (tl_, _) => Some (mkMeta ty ex ver sz hd_ tl_)
              end
            end
          else Some (mkMeta ty ex ver sz 0 0)
        end
      end
    end
  end.

(* ---- internal keys ---------------------------------------------------------------------------------- *)
Definition hash_key (k : bytes) (ver : N) (f : bytes) : bytes := k ++ le64 ver ++ f.
Definition set_key (k : bytes) (ver : N) (m : bytes) : bytes := k ++ le64 ver ++ m ++ le32 (len m).
Definition list_key (k : bytes) (ver : N) (idx : N) : bytes := k ++ le64 ver ++ le64 idx.
Definition zmember_key (k : bytes) (ver : N) (m : bytes) : bytes := k ++ le64 ver ++ m.
Definition zscore_key (k : bytes) (ver : N) (score m : bytes) : bytes := k ++ le64 ver ++ score ++ m ++ le32 (len m).

(* ---- plans and replies ------------------------------------------------------------------------------ *)
Inductive wop := WPut (k v : bytes) | WDel (k : bytes).
(* what a command writes: nothing, one DB.Put, one DB.Delete, or one batch (NewBatch ... Commit) *)
Inductive plan := PNone | PPut (k v : bytes) | PDelete (k : bytes) | PBatch (ws : list wop).

Inductive dreply :=
| DOk                      (* nil error, no value *)
| DNil                     (* (nil, nil): absent / empty *)
| DBytes (b : bytes)
| DBool (b : bool)
| DSize (n : N)
| DScore (s : bytes)       (* the score as its canonical decimal string *)
| DNoScore                 (* (-1, nil) *)
| DType (t : N)
| DWrongType
| DNotFound
| DNull                    (* Type of a key with an empty value *)
| DKeyEmpty.

(* findMetadata on the result of DB.Get: the metadata of the key as a [dt]; a missing key gets fresh
   metadata with version [ver] *)
Inductive fm := FmWrong | FmEmpty | FmMeta (m : meta) (existed : bool).
Definition fresh_meta (dt ver : N) : meta :=
  if dt =? ty_List then mkMeta dt 0 ver 0 initialListMark initialListMark else mkMeta dt 0 ver 0 0 0.
Definition find_meta_raw (r : option bytes) (dt ver now : N) : fm :=
  match r with
  | None => FmMeta (fresh_meta dt ver) false
  | Some raw =>
    match raw with
    | [] => FmWrong
    | ty :: _ =>
      if negb (ty =? dt) then FmWrong else
      match dec_meta raw with
      | None => FmWrong
      | Some m =>
        if negb (m_expire m =? 0) && (m_expire m <=? now) then FmMeta (fresh_meta dt ver) false
        else FmMeta m true
      end
    end
  end.

Definition with_size (m : meta) (s : N) : meta := mkMeta (m_type m) (m_expire m) (m_version m) s (m_head m) (m_tail m).
Definition enc_string (v : bytes) (expire : N) : bytes := [ty_String] ++ put_varint_nonneg expire ++ v.
Definition wrap64 (x : N) : N := x mod 18446744073709551616.
Definition fm_reply (f : fm) : dreply := match f with FmEmpty => DKeyEmpty | _ => DWrongType end.

(* The commands, over any store with a Get ([S] is the engine with its I/O trace when the model runs
   against the implementation, and a plain map in the proofs).  [now] is the clock reading of the
   command, [ver] the version a key created by it gets (both time.Now().UnixNano()). *)
Section Cmds.
Variable S : Type.
Variable get : S -> bytes -> S * option bytes.

Definition find (s : S) (k : bytes) (dt ver now : N) : S * fm :=
  if len k =? 0 then (s, FmEmpty) else
  let '(s1, r) := get s k in (s1, find_meta_raw r dt ver now).

(* ---- String ---- *)
Definition dt_set (s : S) (k v : bytes) (expire : N) : S * dreply * plan := (s, DOk, PPut k (enc_string v expire)).
Definition dt_get (s : S) (k : bytes) (now : N) : S * dreply * plan :=
  if len k =? 0 then (s, DKeyEmpty, PNone) else
  let '(s1, r) := get s k in
  (s1,
   match r with
   | None => DNotFound
   | Some [] => DNull
   | Some (ty :: rest) =>
     if negb (ty =? ty_String) then DWrongType else
     match varint_nonneg rest with
     | None => DNull
     | Some (ex, n) => if (0 <? ex) && (ex <=? now) then DNil else DBytes (drop n rest)
     end
   end, PNone).

(* ---- Hash ---- *)
Definition dt_hset (s : S) (k f v : bytes) (ver now : N) : S * dreply * plan :=
  let '(s1, fmr) := find s k ty_Hash ver now in
  match fmr with
  | FmMeta m _ =>
    let ek := hash_key k (m_version m) f in
    let '(s2, e) := get s1 ek in
    match e with
    | Some _ => (s2, DBool false, PBatch [WPut ek v])
    | None => (s2, DBool true, PBatch [WPut k (enc_meta (with_size m (m_size m + 1))); WPut ek v])
    end
  | _ => (s1, fm_reply fmr, PNone)
  end.
Definition dt_hget (s : S) (k f : bytes) (ver now : N) : S * dreply * plan :=
  let '(s1, fmr) := find s k ty_Hash ver now in
  match fmr with
  | FmMeta m _ =>
    if m_size m =? 0 then (s1, DNil, PNone) else
    let '(s2, e) := get s1 (hash_key k (m_version m) f) in
    (s2, match e with Some v => DBytes v | None => DNotFound end, PNone)
  | _ => (s1, fm_reply fmr, PNone)
  end.
Definition dt_hdel (s : S) (k f : bytes) (ver now : N) : S * dreply * plan :=
  let '(s1, fmr) := find s k ty_Hash ver now in
  match fmr with
  | FmMeta m _ =>
    if m_size m =? 0 then (s1, DBool false, PNone) else
    let ek := hash_key k (m_version m) f in
    let '(s2, e) := get s1 ek in
    match e with
    | None => (s2, DBool false, PNone)
    | Some _ => (s2, DBool true, PBatch [WPut k (enc_meta (with_size m (m_size m - 1))); WDel ek])
    end
  | _ => (s1, fm_reply fmr, PNone)
  end.

(* ---- Set ---- *)
Definition dt_sadd (s : S) (k mem : bytes) (ver now : N) : S * dreply * plan :=
  let '(s1, fmr) := find s k ty_Set ver now in
  match fmr with
  | FmMeta m _ =>
    let ek := set_key k (m_version m) mem in
    let '(s2, e) := get s1 ek in
    match e with
    | Some _ => (s2, DBool false, PNone)
    | None => (s2, DBool true, PBatch [WPut k (enc_meta (with_size m (m_size m + 1))); WPut ek []])
    end
  | _ => (s1, fm_reply fmr, PNone)
  end.
Definition dt_sismember (s : S) (k mem : bytes) (ver now : N) : S * dreply * plan :=
  let '(s1, fmr) := find s k ty_Set ver now in
  match fmr with
  | FmMeta m _ =>
    if m_size m =? 0 then (s1, DBool false, PNone) else
    let '(s2, e) := get s1 (set_key k (m_version m) mem) in
    (s2, match e with Some _ => DBool true | None => DBool false end, PNone)
  | _ => (s1, fm_reply fmr, PNone)
  end.
Definition dt_srem (s : S) (k mem : bytes) (ver now : N) : S * dreply * plan :=
  let '(s1, fmr) := find s k ty_Set ver now in
  match fmr with
  | FmMeta m _ =>
    if m_size m =? 0 then (s1, DBool false, PNone) else
    let ek := set_key k (m_version m) mem in
    let '(s2, e) := get s1 ek in
    match e with
    | None => (s2, DBool false, PNone)
    | Some _ => (s2, DBool true, PBatch [WPut k (enc_meta (with_size m (m_size m - 1))); WDel ek])
    end
  | _ => (s1, fm_reply fmr, PNone)
  end.

(* ---- List ---- *)
Definition dt_push (s : S) (k e : bytes) (left : bool) (ver now : N) : S * dreply * plan :=
  let '(s1, fmr) := find s k ty_List ver now in
  match fmr with
  | FmMeta m _ =>
    let idx := if left then wrap64 (m_head m + 18446744073709551615) else m_tail m in
    let m' := if left then mkMeta (m_type m) (m_expire m) (m_version m) (m_size m + 1) idx (m_tail m)
              else mkMeta (m_type m) (m_expire m) (m_version m) (m_size m + 1) (m_head m) (wrap64 (m_tail m + 1)) in
    (s1, DSize (m_size m + 1), PBatch [WPut k (enc_meta m'); WPut (list_key k (m_version m) idx) e])
  | _ => (s1, fm_reply fmr, PNone)
  end.
Definition dt_pop (s : S) (k : bytes) (left : bool) (ver now : N) : S * dreply * plan :=
  let '(s1, fmr) := find s k ty_List ver now in
  match fmr with
  | FmMeta m _ =>
    if m_size m =? 0 then (s1, DNil, PNone) else
    let idx := if left then m_head m else wrap64 (m_tail m + 18446744073709551615) in
    let '(s2, e) := get s1 (list_key k (m_version m) idx) in
    match e with
    | None => (s2, DNotFound, PNone)
    | Some x =>
      let m' := if left then mkMeta (m_type m) (m_expire m) (m_version m) (m_size m - 1) (wrap64 (m_head m + 1)) (m_tail m)
                else mkMeta (m_type m) (m_expire m) (m_version m) (m_size m - 1) (m_head m) idx in
      (s2, DBytes x, PPut k (enc_meta m'))
    end
  | _ => (s1, fm_reply fmr, PNone)
  end.

(* ---- ZSet (scores as canonical decimal strings: equal scores = equal strings) ---- *)
Definition dt_zadd (s : S) (k score mem : bytes) (ver now : N) : S * dreply * plan :=
  let '(s1, fmr) := find s k ty_ZSet ver now in
  match fmr with
  | FmMeta m _ =>
    let mk := zmember_key k (m_version m) mem in
    let '(s2, e) := get s1 mk in
    match e with
    | None =>
      (s2, DBool true, PBatch [WPut k (enc_meta (with_size m (m_size m + 1))); WPut mk score;
                               WPut (zscore_key k (m_version m) score mem) []])
    | Some old =>
      if bytes_eqb old score then (s2, DBool false, PNone)
      else (s2, DBool false, PBatch [WDel (zscore_key k (m_version m) old mem); WPut mk score;
                                     WPut (zscore_key k (m_version m) score mem) []])
    end
  | _ => (s1, fm_reply fmr, PNone)
  end.
Definition dt_zscore (s : S) (k mem : bytes) (ver now : N) : S * dreply * plan :=
  let '(s1, fmr) := find s k ty_ZSet ver now in
  match fmr with
  | FmMeta m _ =>
    if m_size m =? 0 then (s1, DNoScore, PNone) else
    let '(s2, e) := get s1 (zmember_key k (m_version m) mem) in
    (s2, match e with Some sc => DScore sc | None => DNotFound end, PNone)
  | _ => (s1, fm_reply fmr, PNone)
  end.

(* ---- generic ---- *)
Definition dt_del (s : S) (k : bytes) : S * dreply * plan := (s, DOk, PDelete k).
Definition dt_type (s : S) (k : bytes) : S * dreply * plan :=
  if len k =? 0 then (s, DKeyEmpty, PNone) else
  let '(s1, r) := get s k in
  (s1, match r with None => DNotFound | Some [] => DNull | Some (ty :: _) => DType ty end, PNone).

(* one command of the layer *)
Inductive cmd :=
| KSet (k v : bytes) (expire : N) | KGet (k : bytes) | KDel (k : bytes) | KType (k : bytes)
| KHSet (k f v : bytes) | KHGet (k f : bytes) | KHDel (k f : bytes)
| KSAdd (k m : bytes) | KSIsMember (k m : bytes) | KSRem (k m : bytes)
| KPush (k e : bytes) (left : bool) | KPop (k : bytes) (left : bool)
| KZAdd (k score m : bytes) | KZScore (k m : bytes).

Definition dt_cmd (s : S) (c : cmd) (ver now : N) : S * dreply * plan :=
  match c with
  | KSet k v ex => dt_set s k v ex
  | KGet k => dt_get s k now
  | KDel k => dt_del s k
  | KType k => dt_type s k
  | KHSet k f v => dt_hset s k f v ver now
  | KHGet k f => dt_hget s k f ver now
  | KHDel k f => dt_hdel s k f ver now
  | KSAdd k m => dt_sadd s k m ver now
  | KSIsMember k m => dt_sismember s k m ver now
  | KSRem k m => dt_srem s k m ver now
  | KPush k e l => dt_push s k e l ver now
  | KPop k l => dt_pop s k l ver now
  | KZAdd k sc m => dt_zadd s k sc m ver now
  | KZScore k m => dt_zscore s k m ver now
  end.
End Cmds.
