(* Bytes.v — byte strings indexed by N, little-endian integers, Go varints.
   Model only: no proofs here (proofs/BytesLemmas.v). *)
From Coq Require Export List NArith Bool.
Export ListNotations.
Open Scope N_scope.

Definition byte := N.
Definition bytes := list byte.

(* list operations indexed by N (no nat of data-dependent size is ever built) *)
Fixpoint take {A} (n : N) (l : list A) {struct l} : list A :=
  match l with [] => [] | x :: r => if n =? 0 then [] else x :: take (n - 1) r end.
Fixpoint drop {A} (n : N) (l : list A) {struct l} : list A :=
  match l with [] => [] | x :: r => if n =? 0 then l else drop (n - 1) r end.
Fixpoint len {A} (l : list A) : N :=
  match l with [] => 0 | _ :: r => N.succ (len r) end.
Fixpoint zeros_pos (p : positive) : bytes :=
  match p with
  | xH => [0]
  | xO q => zeros_pos q ++ zeros_pos q
  | xI q => 0 :: zeros_pos q ++ zeros_pos q
  end.
Definition zeros (n : N) : bytes := match n with N0 => [] | Npos p => zeros_pos p end.

(* drop without per-element arithmetic (binary recursion on the count); equal to drop
   (BytesLemmas.fdrop_eq) and used where the count is a file offset *)
Fixpoint drop_pos {A} (p : positive) (l : list A) : list A :=
  match p with
  | xH => tl l
  | xO q => drop_pos q (drop_pos q l)
  | xI q => tl (drop_pos q (drop_pos q l))
  end.
Definition fdrop {A} (n : N) (l : list A) : list A :=
  match n with N0 => l | Npos p => drop_pos p l end.

Definition slice (i j : N) (l : bytes) : bytes := take (j - i) (fdrop i l).

(* a Go slice expression l[i:j]: None is the run-time panic (bounds out of range) *)
Definition gslice (i j : N) (l : bytes) : option bytes :=
  if (i <=? j) && (j <=? len l) then Some (slice i j l) else None.
(* a Go index expression l[i] *)
Definition gindex (i : N) (l : bytes) : option byte :=
  match fdrop i l with x :: _ => Some x | [] => None end.

Fixpoint all_zero (l : bytes) : bool :=
  match l with [] => true | x :: r => (x =? 0) && all_zero r end.

Fixpoint bytes_eqb (a b : bytes) : bool :=
  match a, b with
  | [], [] => true
  | x :: a', y :: b' => (x =? y) && bytes_eqb a' b'
  | _, _ => false
  end.

(* little-endian fixed-width integers (binary.LittleEndian) *)
Definition le16 (n : N) : bytes := [n mod 256; (n / 256) mod 256].
Definition le32 (n : N) : bytes :=
  [n mod 256; (n / 256) mod 256; (n / 65536) mod 256; (n / 16777216) mod 256].
Definition le64 (n : N) : bytes := le32 (n mod 4294967296) ++ le32 (n / 4294967296).
Definition rd16 (l : bytes) : N := match l with a :: b :: _ => a + 256 * b | _ => 0 end.
Definition rd32 (l : bytes) : N :=
  match l with a :: b :: c :: d :: _ => a + 256 * b + 65536 * c + 16777216 * d | _ => 0 end.

(* binary.PutUvarint for x < 2^64: at most 10 bytes *)
Fixpoint put_uvarint_fuel (fuel : nat) (x : N) : bytes :=
  match fuel with
  | O => []
  | S f => if x <? 128 then [x] else (x mod 128 + 128) :: put_uvarint_fuel f (x / 128)
  end.
Definition put_uvarint (x : N) : bytes := put_uvarint_fuel 10 x.

(* binary.Uvarint: Some (value, bytes consumed) when n > 0; None when Go returns n <= 0
   (buffer too small, or more than 64 bits) *)
Fixpoint uvarint_fuel (fuel : nat) (i : N) (shift : N) (acc : N) (buf : bytes) : option (N * N) :=
  match fuel with
  | O => None
  | S f =>
    match buf with
    | [] => None
    | b :: r =>
      if b <? 128 then
        (if (i =? 9) && (1 <? b) then None else Some (acc + b * 2 ^ shift, i + 1))
      else uvarint_fuel f (i + 1) (shift + 7) (acc + (b mod 128) * 2 ^ shift) r
    end
  end.
Definition uvarint (buf : bytes) : option (N * N) := uvarint_fuel 10 0 0 0 buf.

(* binary.PutVarint on a non-negative int64 (lengths): zig-zag = 2x *)
Definition put_varint_nonneg (x : N) : bytes := put_uvarint (2 * x).
(* binary.Varint, restricted to the results the engine accepts: Some (x, n) only for
   n > 0 and x >= 0 (checkLogRecord rejects everything else) *)
Definition varint_nonneg (buf : bytes) : option (N * N) :=
  match uvarint buf with
  | Some (ux, n) => if N.odd ux then None else Some (ux / 2, n)
  | None => None
  end.
