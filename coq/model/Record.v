(* Record.v — datafile/log_record.go: log record and hint record codecs.  Model only. *)
From KV Require Import Bytes GenConsts Chunk.
Open Scope N_scope.

Record record := mkRec { r_type : N; r_key : bytes; r_value : bytes; r_batch : N }.

(* EncodeLogRecord *)
Definition rec_header (r : record) : bytes :=
  [r_type r] ++ put_varint_nonneg (len (r_key r)) ++ put_varint_nonneg (len (r_value r))
             ++ put_uvarint (r_batch r).
Definition encode_record (r : record) : bytes := rec_header r ++ r_key r ++ r_value r.

(* checkLogRecord followed by DecodeLogRecord; None = rejected as corrupted *)
Definition decode_record (d : bytes) : option record :=
  match d with
  | [] => None
  | ty :: d1 =>
    match varint_nonneg d1 with
    | None => None
    | Some (ks, n1) =>
      let d2 := drop n1 d1 in
      match varint_nonneg d2 with
      | None => None
      | Some (vs, n2) =>
        let d3 := drop n2 d2 in
        match uvarint d3 with
        | None => None
        | Some (b, n3) =>
          let d4 := drop n3 d3 in
          if (ks <=? len d4) && (vs =? len d4 - ks)
          then Some (mkRec ty (take ks d4) (drop ks d4) b)
          else None
        end
      end
    end
  end.

(* DecodeLogRecordValue after checkLogRecord *)
Definition decode_value (d : bytes) : option bytes :=
  match decode_record d with Some r => Some (r_value r) | None => None end.

(* length of the encoding, from the lengths alone *)
Definition uvarint_len (x : N) : N := len (put_uvarint x).
Definition encoded_len (klen vlen batch : N) : N :=
  1 + uvarint_len (2 * klen) + uvarint_len (2 * vlen) + uvarint_len batch + klen + vlen.

(* GetLogRecordDiskSize *)
Definition disk_size_estimate (klen vlen : N) : N :=
  let size := maxLogRecordHeaderSize + klen + vlen + maxVarintLen64 + 1 in
  size + chunkHeaderSize + (size / blockSize + 1) * chunkHeaderSize.

(* EncodeHintRecord / checkHintRecord + DecodeHintRecord *)
Definition encode_hint (key : bytes) (p : pos) : bytes :=
  put_uvarint (p_fid p) ++ put_uvarint (p_bid p) ++ put_uvarint (p_off p) ++ put_uvarint (p_size p) ++ key.

Definition u32_max : N := 4294967295.
Definition decode_hint (d : bytes) : option (bytes * pos) :=
  match uvarint d with
  | None => None
  | Some (a, n1) =>
    if u32_max <? a then None else
    let d1 := drop n1 d in
    match uvarint d1 with
    | None => None
    | Some (b, n2) =>
      if u32_max <? b then None else
      let d2 := drop n2 d1 in
      match uvarint d2 with
      | None => None
      | Some (c, n3) =>
        if u32_max <? c then None else
        let d3 := drop n3 d2 in
        match uvarint d3 with
        | None => None
        | Some (e, n4) =>
          if u32_max <? e then None else Some (drop n4 d3, mkPos a b c e)
        end
      end
    end
  end.

(* merge-finished marker: 4 raw little-endian bytes; 0 = unreadable *)
Definition encode_marker (id : N) : bytes := le32 id.
Definition decode_marker (d : bytes) : N := if len d <? 4 then 0 else rd32 d.
