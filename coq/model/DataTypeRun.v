(* DataTypeRun.v — the data-structure layer on the engine model: a command reads through db_get, then
   its plan is executed by db_put / db_delete / one batch (NewBatch, Put/Delete ..., Commit). *)
From KV Require Import Bytes GenConsts Record Engine DataType.
Open Scope N_scope.

Definition est := (db * list event)%type.

Definition e_get (s : est) (k : bytes) : est * option bytes :=
  let '(d, evs) := s in
  let '(d1, r, ev) := db_get d k in
  ((d1, evs ++ ev), match r with inl v => Some v | inr _ => None end).

(* the layer ignores the errors of Batch.Put / Batch.Delete ("_ = wb.Put(...)") *)
Fixpoint stage (d : db) (b : batch) (ws : list wop) (evs : list event) : db * batch * list event :=
  match ws with
  | [] => (d, b, evs)
  | WPut k v :: r => let '(d1, b1, _, ev) := batch_put d b k v in stage d1 b1 r (evs ++ ev)
  | WDel k :: r => let '(d1, b1, _, ev) := batch_delete d b k in stage d1 b1 r (evs ++ ev)
  end.

(* [bid]: the id NewBatch drew (snowflake) *)
Definition apply_plan (s : est) (p : plan) (bid : N) : est * option eerr :=
  let '(d, evs) := s in
  match p with
  | PNone => (s, None)
  | PPut k v => let '(d1, e, ev) := db_put d k v in ((d1, evs ++ ev), e)
  | PDelete k => let '(d1, e, ev) := db_delete d k in ((d1, evs ++ ev), e)
  | PBatch ws =>
    let '(d1, b1, ev) := stage d (new_batch false bid) ws [] in
    let '(d2, _, e2, ev2) := batch_commit d1 b1 in
    ((d2, evs ++ ev ++ ev2), e2)
  end.

Inductive outcome := OReply (r : dreply) | OErr (e : eerr).

Definition run_cmd (d : db) (c : cmd) (ver now bid : N) : db * outcome * list event :=
  let '(s1, r, p) := dt_cmd est e_get (d, []) c ver now in
  let '(s2, e) := apply_plan s1 p bid in
  (fst s2, match e with Some x => OErr x | None => OReply r end, snd s2).
