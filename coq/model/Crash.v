(* Crash.v — the file system as a function of the I/O events issued so far, crash images
   (the first k events applied, then every data file cut to a surviving length), and recovery
   from a crash image.  Model only. *)
From KV Require Import Bytes GenConsts Chunk Record Engine.
Open Scope N_scope.

Definition fname_eqb (a b : fname) : bool :=
  match a, b with
  | FData x, FData y => x =? y
  | MData x, MData y => x =? y
  | FHint, FHint | MHint, MHint | MMarker, MMarker => true
  | _, _ => false
  end.
Definition in_merge_dir (f : fname) : bool :=
  match f with MData _ | MHint | MMarker => true | _ => false end.

Record fsys := mkFs {
  fs_files : list (fname * lfile);   (* data files of the data directory and of the merge directory *)
  fs_hints : list (fname * hfile);   (* FHint, MHint *)
  fs_marker : option N;              (* merge-finished marker: Some 0 = present but unreadable *)
  fs_merge : bool;                   (* the merge directory exists *)
}.
Definition fs_empty : fsys := mkFs [] [] None false.

Section Assoc.
Context {V : Type}.
Fixpoint fget (l : list (fname * V)) (f : fname) : option V :=
  match l with [] => None | (g, v) :: r => if fname_eqb g f then Some v else fget r f end.
Fixpoint fdel (l : list (fname * V)) (f : fname) : list (fname * V) :=
  match l with [] => [] | (g, v) :: r => if fname_eqb g f then fdel r f else (g, v) :: fdel r f end.
Definition fset (l : list (fname * V)) (f : fname) (v : V) : list (fname * V) := (f, v) :: fdel l f.
End Assoc.

Definition nmax (a b : N) : N := if a <? b then b else a.

Definition fs_apply (s : fsys) (e : event) : fsys :=
  match e with
  | EvCreate f =>
    match f with
    | FData _ | MData _ =>
        match fget (fs_files s) f with
        | Some _ => s
        | None => mkFs (fset (fs_files s) f lf_empty) (fs_hints s) (fs_marker s) (fs_merge s)
        end
    | FHint | MHint =>
        match fget (fs_hints s) f with
        | Some _ => s
        | None => mkFs (fs_files s) (fset (fs_hints s) f hf_empty) (fs_marker s) (fs_merge s)
        end
    | MMarker => match fs_marker s with Some _ => s | None => mkFs (fs_files s) (fs_hints s) (Some 0) (fs_merge s) end
    end
  | EvOpen _ => s
  | EvWrite f n (WRecs rs) =>
    match fget (fs_files s) f with
    | Some x =>
      let sz := lf_size x + n in
      mkFs (fset (fs_files s) f (mkLf (lf_recs x ++ rs) sz (nmax (lf_phys x) sz) 0 (lf_torn x) (lf_durable x)))
           (fs_hints s) (fs_marker s) (fs_merge s)
    | None => s
    end
  | EvWrite f n (WHint k p) =>
    match fget (fs_hints s) f with
    | Some h =>
      let sz := hf_size h + n in
      mkFs (fs_files s) (fset (fs_hints s) f (mkHf (hf_recs h ++ [(k, p)]) sz (nmax (hf_phys h) sz))) (fs_marker s) (fs_merge s)
    | None => s
    end
  | EvWrite _ _ (WMarker id) => mkFs (fs_files s) (fs_hints s) (Some id) (fs_merge s)
  | EvSync f =>
    match fget (fs_files s) f with
    | Some x => mkFs (fset (fs_files s) f (mkLf (lf_recs x) (lf_size x) (lf_phys x) 0 (lf_torn x) (lf_size x)))
                     (fs_hints s) (fs_marker s) (fs_merge s)
    | None => s
    end
  | EvClose _ => s
  | EvTrunc f n =>
    match fget (fs_files s) f with
    | Some x => mkFs (fset (fs_files s) f (mkLf (lf_recs x) (lf_size x) n 0 (lf_torn x) (lf_durable x)))
                     (fs_hints s) (fs_marker s) (fs_merge s)
    | None =>
      match fget (fs_hints s) f with
      | Some h => mkFs (fs_files s) (fset (fs_hints s) f (mkHf (hf_recs h) (hf_size h) n)) (fs_marker s) (fs_merge s)
      | None => s
      end
    end
  | EvMkdirData => s
  | EvMkdirMerge => mkFs (fs_files s) (fs_hints s) (fs_marker s) true
  | EvRemove f => mkFs (fdel (fs_files s) f) (fdel (fs_hints s) f)
                       (match f with MMarker => None | _ => fs_marker s end) (fs_merge s)
  | EvRename a b =>
    match fget (fs_files s) a with
    | Some x => mkFs (fset (fdel (fs_files s) a) b x) (fs_hints s) (fs_marker s) (fs_merge s)
    | None =>
      match fget (fs_hints s) a with
      | Some h => mkFs (fs_files s) (fset (fdel (fs_hints s) a) b h) (fs_marker s) (fs_merge s)
      | None => s
      end
    end
  | EvRemoveAllMerge =>
    mkFs (filter (fun x => negb (in_merge_dir (fst x))) (fs_files s))
         (filter (fun x => negb (in_merge_dir (fst x))) (fs_hints s)) None false
  end.

Definition fs_replay (s : fsys) (evs : list event) : fsys := fold_left fs_apply evs s.

(* ---- from a file system state to what Open sees ------------------------------------------ *)
Fixpoint insert_by_id (l : list (N * lfile)) (id : N) (f : lfile) : list (N * lfile) :=
  match l with
  | [] => [(id, f)]
  | (i, g) :: r => if id <? i then (id, f) :: (i, g) :: r else (i, g) :: insert_by_id r id f
  end.
Fixpoint data_files (l : list (fname * lfile)) (merge : bool) : list (N * lfile) :=
  match l with
  | [] => []
  | (FData id, f) :: r => if merge then data_files r merge else insert_by_id (data_files r merge) id f
  | (MData id, f) :: r => if merge then insert_by_id (data_files r merge) id f else data_files r merge
  | _ :: r => data_files r merge
  end.

(* which bytes of each data file survive: a length per file (the physical size = nothing lost) *)
Inductive cut_mode := CutNone | CutDurable | CutAt (f : fname) (n : N).
Definition cut_of (m : cut_mode) (nm : fname) (x : lfile) : N :=
  match m with
  | CutNone => lf_phys x
  | CutDurable => lf_durable x
  | CutAt g n => if fname_eqb g nm then n else lf_phys x
  end.

Definition fs_to_disk (s : fsys) (m : cut_mode) : disk :=
  let cutf (mk : N -> fname) := map (fun x => (fst x, lf_crash (snd x) (cut_of m (mk (fst x)) (snd x)))) in
  mkDisk (cutf FData (data_files (fs_files s) false))
         (fget (fs_hints s) FHint)
         (if fs_merge s
          then Some (mkMdir (cutf MData (data_files (fs_files s) true)) (fget (fs_hints s) MHint) (fs_marker s))
          else None).

(* os.RemoveAll unlinks the entries of the merge directory one by one, in an order the file system
   chooses: a process that dies inside it leaves the directory with ANY subset of its entries.
   [gone f] says which entries were already unlinked. *)
Definition fs_partial_rm (s : fsys) (gone : fname -> bool) : fsys :=
  mkFs (filter (fun x => negb (in_merge_dir (fst x) && gone (fst x))) (fs_files s))
       (filter (fun x => negb (in_merge_dir (fst x) && gone (fst x))) (fs_hints s))
       (if gone MMarker then None else fs_marker s) (fs_merge s).
Definition crash_open_rm (c : cfg) (evs : list event) (k : nat) (gone : fname -> bool) : open_res * list event :=
  db_open c (fs_to_disk (fs_partial_rm (fs_replay fs_empty (firstn k evs)) gone) CutNone).

(* the crash image after the first k events, and what Open makes of it *)
Definition crash_disk (evs : list event) (k : nat) (m : cut_mode) : disk :=
  fs_to_disk (fs_replay fs_empty (firstn k evs)) m.
Definition crash_open (c : cfg) (evs : list event) (k : nat) (m : cut_mode) : open_res * list event :=
  db_open c (crash_disk evs k m).
