(* Conc.v — several clients on one database: each call is the list of atomic actions the code
   performs (an action is one critical section of the engine lock, or one shard-locked index read).
   Put = [append + index update]; Delete = [existence check + tombstone + index delete];
   Get = [index lookup] ; [read of the record at the position found].  Model only.
   Ghost state: every call is stamped with the number of its linearization point (the action at which
   it takes effect: the single action of Put / Delete, the index lookup of Get). *)
From KV Require Import Bytes GenConsts Chunk Record Engine Script.
Open Scope N_scope.

Inductive call := CPut (k v : bytes) | CDel (k : bytes) | CGet (k : bytes).

Inductive tstate :=
| TIdle (todo : list call)
| TReading (stamp : nat) (p : option pos) (k : bytes) (todo : list call).

(* a completed call: who, what, result, stamp *)
Inductive done :=
| DPut (tid : nat) (k v : bytes) (e : option eerr) (stamp : nat)
| DDel (tid : nat) (k : bytes) (e : option eerr) (stamp : nat)
| DGet (tid : nat) (k : bytes) (r : bytes + eerr) (stamp : nat).

Inductive lin := LPut (tid : nat) (k v : bytes) | LDel (tid : nat) (k : bytes) | LGet (tid : nat) (k : bytes).

Record cstate := mkC {
  c_db : db;
  c_threads : list tstate;
  c_hist : list done;          (* completed calls, in completion order *)
  c_lins : list lin;           (* ghost: the linearization points so far, in order *)
}.

Fixpoint set_nth {A} (l : list A) (i : nat) (x : A) : list A :=
  match l, i with
  | [], _ => []
  | _ :: r, O => x :: r
  | y :: r, S i' => y :: set_nth r i' x
  end.

(* one atomic action of client [tid] (no effect if it has nothing left to do) *)
Definition cstep (s : cstate) (tid : nat) : cstate :=
  let n := length (c_lins s) in
  match nth_error (c_threads s) tid with
  | None => s
  | Some (TIdle []) => s
  | Some (TIdle (CPut k v :: todo)) =>
    let '(d', e, _) := db_put (c_db s) k v in
    mkC d' (set_nth (c_threads s) tid (TIdle todo)) (c_hist s ++ [DPut tid k v e n]) (c_lins s ++ [LPut tid k v])
  | Some (TIdle (CDel k :: todo)) =>
    let '(d', e, _) := db_delete (c_db s) k in
    mkC d' (set_nth (c_threads s) tid (TIdle todo)) (c_hist s ++ [DDel tid k e n]) (c_lins s ++ [LDel tid k])
  | Some (TIdle (CGet k :: todo)) =>
    if len k =? 0
    then mkC (c_db s) (set_nth (c_threads s) tid (TIdle todo)) (c_hist s ++ [DGet tid k (inr EKeyIsEmpty) n]) (c_lins s ++ [LGet tid k])
    else mkC (c_db s) (set_nth (c_threads s) tid (TReading n (idx_get (d_index (c_db s)) k) k todo)) (c_hist s)
             (c_lins s ++ [LGet tid k])
  | Some (TReading st None k todo) =>
    mkC (c_db s) (set_nth (c_threads s) tid (TIdle todo)) (c_hist s ++ [DGet tid k (inr EKeyNotFound) st]) (c_lins s)
  | Some (TReading st (Some p) k todo) =>
    let '(d', r, _) := db_read (c_db s) p in
    mkC d' (set_nth (c_threads s) tid (TIdle todo)) (c_hist s ++ [DGet tid k r st]) (c_lins s)
  end.

Definition crun (s : cstate) (sched : list nat) : cstate := fold_left cstep sched s.

(* ---- the sequential specification of the linearization ---------------------------------------- *)
Definition lres := (option eerr + (bytes + eerr))%type.
Definition lin_apply (M : smap) (l : lin) : smap * lres :=
  match l with
  | LPut _ k v => let '(M', e) := s_put M k v in (M', inl e)
  | LDel _ k => let '(M', e) := s_del M k in (M', inl e)
  | LGet _ k => (M, inr (s_get M k))
  end.
Fixpoint lin_run (M : smap) (L : list lin) : smap * list lres :=
  match L with
  | [] => (M, [])
  | l :: r => let '(M1, x) := lin_apply M l in let '(M2, xs) := lin_run M1 r in (M2, x :: xs)
  end.

Definition done_res (x : done) : nat * lres :=
  match x with
  | DPut _ _ _ e st => (st, inl e)
  | DDel _ _ e st => (st, inl e)
  | DGet _ _ r st => (st, inr r)
  end.
